import XdsVerif.Proofs.Flow
import XdsVerif.Proofs.Conc
import XdsVerif.Proofs.Sys
import XdsVerif.Generated.Facts
/-!
# C05 — a lookup returns a value of the requested kind xor an error, in bounded time
Interleaving semantics of `Get` (`Model/Conc.lean`): all schedules, any number of threads.
Wall-clock time is not in the model: "no later than the deadline plus slack" is the step bound
`deadline_bounded` (after the deadline fired the thread needs exactly one more own step, which only takes
`m.mu`); the slack itself is measured by the harness.
-/
namespace XdsVerif.Properties.C05
open XdsVerif.Conc

abbrev V : Variant := Generated.getVariant

theorem facts_get : V = expectedVariant := by decide

/-- bridge: `Get`, `getFromCache` and `notifier.notify` are, statement for statement, the bodies the interleaving model
was written against (the three shape facts only cover what their recognisers look for: a new lock-free gap, a second
lock region or a moved statement changes this fingerprint) -/
theorem facts_get_body : Generated.getFingerprint = expectedGetFingerprint := by decide

/-- bridge: an unknown kind is rejected by the first statement of `Get`, before any cache access or subscription -/
theorem facts_kind_check : Generated.kindCheckFirst = true := by decide

/-- bridge: the kinds with a type URL are the five resource kinds 1..5 (listener, route table, cluster, endpoints, name table) -/
theorem facts_kinds : Generated.knownKinds = [1, 2, 3, 4, 5] := by decide

/-- **an unknown kind is rejected**: exactly the kinds 1..5 get past the first statement of `Get`; the zero kind (the zero
value of the kind type), negative numbers and everything above the name table are rejected there, before any cache
access, notifier or subscription (`facts_kind_check`) -/
theorem unknown_kind_rejected (k : Int) : kindAccepted Generated.knownKinds k = true ↔ (1 ≤ k ∧ k ≤ 5) := by
  rw [facts_kinds]
  simp only [kindAccepted, List.any_cons, List.any_nil, Bool.or_false, Bool.or_eq_true, beq_iff_eq]
  omega

example : kindAccepted Generated.knownKinds 0 = false ∧ kindAccepted Generated.knownKinds (-1) = false ∧
    kindAccepted Generated.knownKinds 6 = false ∧ kindAccepted Generated.knownKinds 3 = true := by decide

/-- no thread ever finishes with "neither a value nor an error" -/
def NoNil (s : S) : Prop := ∀ i, s.pc i ≠ .done .nilnil

theorem nonil_step (tn : Nat → Name) (s s' : S) (l : Lbl) (h : NoNil s) (hs : cstep V tn s l = some s') : NoNil s' := by
  rw [facts_get] at hs
  intro i
  cases l <;> simp only [cstep, expectedVariant] at hs
  all_goals (repeat' split at hs)
  all_goals first
    | (cases hs; done)
    | (cases hs; exact h i)
    | (cases hs; simp only [setPc, attachExisting, attachNew, detachLast]; split <;> first | exact h i | (simp; done) | (exfalso; simp_all))
    | (exfalso; simp_all)

/-- **result shape**: in every reachable state every finished lookup has a value or an error, never neither -/
theorem result_shape (tn : Nat → Name) (ls : List Lbl) (s : S) (h : runL V tn init ls = some s) (i : Nat) (r : Res)
    (hd : s.pc i = .done r) : (∃ v, r = .val v) ∨ r = .err := by
  have hn : NoNil s := by
    have : ∀ (ls : List Lbl) (s0 s1 : S), NoNil s0 → runL V tn s0 ls = some s1 → NoNil s1 := by
      intro ls
      induction ls with
      | nil => intro s0 s1 h0 h; simp [runL] at h; subst h; exact h0
      | cons l ls ih =>
        intro s0 s1 h0 h
        simp only [runL] at h
        split at h
        · rename_i s' hs'; exact ih s' s1 (nonil_step tn s0 s' l h0 hs') h
        · cases h
    exact this ls init s (by intro i; simp [init]) h
  cases r with
  | val v => exact Or.inl ⟨v, rfl⟩
  | err => exact Or.inr rfl
  | nilnil => exact absurd hd (hn i)

/-- **never a placeholder**: a value is returned only by a step that reads exactly that value from the cache
(what the cache holds is what an accepted response supplied: C01) -/
theorem value_was_served (tn : Nat → Name) (s s' : S) (l : Lbl) (i : Nat) (v : Val)
    (hnd : ∀ r, s.pc i ≠ .done r) (hs : cstep V tn s l = some s') (hd : s'.pc i = .done (.val v)) :
    s.cache (tn i) = some v ∧ (l = .getStart i ∨ l = .getRegister i ∨ l = .getReread i) := by
  rw [facts_get] at hs
  cases l with
  | getStart j =>
    simp only [cstep] at hs
    split at hs <;> try (cases hs; done)
    split at hs <;> cases hs
    · rename_i w hw
      simp only [setPc] at hd
      split at hd
      · rename_i e; subst e; cases hd; exact ⟨hw, Or.inl rfl⟩
      · exact absurd hd (hnd _)
    · simp only [setPc] at hd
      split at hd
      · cases hd
      · exact absurd hd (hnd _)
  | getRegister j =>
    simp only [cstep, expectedVariant, if_true] at hs
    split at hs <;> try (cases hs; done)
    split at hs
    · rename_i w hw
      cases hs
      simp only [setPc] at hd
      split at hd
      · rename_i e; subst e; cases hd; exact ⟨hw, Or.inr (Or.inl rfl)⟩
      · exact absurd hd (hnd _)
    · split at hs <;> cases hs <;>
      · simp only [setPc, attachExisting, attachNew] at hd
        split at hd
        · cases hd
        · exact absurd hd (hnd _)
  | getReread j =>
    simp only [cstep] at hs
    split at hs <;> try (cases hs; done)
    split at hs <;> cases hs
    · rename_i w hw
      simp only [setPc] at hd
      split at hd
      · rename_i e; subst e; cases hd; exact ⟨hw, Or.inr (Or.inr rfl)⟩
      · exact absurd hd (hnd _)
    · simp only [setPc, expectedVariant] at hd
      split at hd
      · cases hd
      · exact absurd hd (hnd _)
  | getWake j =>
    simp only [cstep] at hs
    split at hs <;> try (cases hs; done)
    split at hs <;> cases hs
    simp only [setPc] at hd
    split at hd
    · cases hd
    · exact absurd hd (hnd _)
  | getDeadline j =>
    simp only [cstep] at hs
    split at hs <;> try (cases hs; done)
    cases hs
    simp only [setPc] at hd
    split at hd
    · cases hd
    · exact absurd hd (hnd _)
  | getCleanup j =>
    simp only [cstep, expectedVariant] at hs
    split at hs <;> try (cases hs; done)
    cases hs
    simp only [setPc] at hd
    split at hd
    · cases hd
    · split at hd <;> exact absurd hd (hnd _)
  | deliver full items => simp only [cstep] at hs; cases hs; exact absurd hd (hnd _)
  | evict n =>
    simp only [cstep] at hs
    split at hs <;> cases hs
    exact absurd hd (hnd _)

/-- **bounded after the deadline**: once a thread's deadline has fired it finishes with an error in exactly one
more step of its own, which is always enabled (it waits for nothing but the manager lock) -/
theorem deadline_bounded (tn : Nat → Name) (s : S) (i nf : Nat) (hp : s.pc i = .timedOut nf) :
    ∃ s', cstep V tn s (.getCleanup i) = some s' ∧ s'.pc i = .done .err := by
  simp only [cstep, hp]
  exact ⟨_, rfl, by simp [setPc]⟩

/-- every unfinished thread always has an enabled step of its own (waiting threads: their deadline): no lookup can
be stuck in the model -/
theorem always_progress (tn : Nat → Name) (ls : List Lbl) (s : S) (h : runL V tn init ls = some s) (i : Nat)
    (hnd : ∀ r, s.pc i ≠ .done r) :
    ∃ l s', cstep V tn s l = some s' ∧ (l = .getStart i ∨ l = .getRegister i ∨ l = .getDeadline i ∨ l = .getReread i ∨ l = .getCleanup i) := by
  cases hp : s.pc i with
  | start =>
    refine ⟨.getStart i, ?_⟩
    simp only [cstep, hp]
    cases s.cache (tn i) <;> exact ⟨_, rfl, by simp⟩
  | missed =>
    refine ⟨.getRegister i, ?_⟩
    simp only [cstep, hp]
    split
    · exact ⟨_, rfl, by simp⟩
    · split <;> exact ⟨_, rfl, by simp⟩
  | waiting nf =>
    refine ⟨.getDeadline i, ?_⟩
    simp only [cstep, hp]
    exact ⟨_, rfl, by simp⟩
  | woken =>
    refine ⟨.getReread i, ?_⟩
    simp only [cstep, hp]
    cases s.cache (tn i) <;> exact ⟨_, rfl, by simp⟩
  | timedOut nf =>
    refine ⟨.getCleanup i, ?_⟩
    simp only [cstep, hp]
    exact ⟨_, rfl, by simp⟩
  | done r => exact absurd hp (hnd r)

/-! ### against the real response handling (`Model/Sys.lean`: lookups × client × receiver sections) -/

/-- result shape in the composed system: every schedule — responses acknowledged, filtered and applied in separate
lock sections, the sender, reconnects, evictions and other lookups in between — every finished lookup has a value
or an error -/
theorem result_shape_sys (cfg : Seq.Cfg) (T : Seq.RType) (tn : Nat → Name) (ls : List Sys.Lbl) (s : Sys.St)
    (e : Sys.Emit) (h : Sys.run cfg V T tn Sys.init ls = some (s, e)) (i : Nat) (r : Res)
    (hd : s.conc.pc i = .done r) : (∃ v, r = .val v) ∨ r = .err :=
  result_shape tn e.conc s.conc (Sys.run_conc cfg V T tn ls Sys.init s e h) i r hd

/-- **never a placeholder, end to end**: the value a lookup returns is the content the *client's* cache holds for
that name at the step that returns it (and that content is the fold of the accepted responses: C01) -/
theorem value_is_served_content (cfg : Seq.Cfg) (T : Seq.RType) (tn : Nat → Name) (ls : List Sys.Lbl)
    (s s' : Sys.St) (e e' : Sys.Emit) (l : Sys.Lbl) (h : Sys.run cfg V T tn Sys.init ls = some (s, e))
    (i : Nat) (v : Val) (hnd : ∀ r, s.conc.pc i ≠ .done r)
    (hs : Sys.step cfg V T tn s l = some (s', e')) (hd : s'.conc.pc i = .done (.val v)) :
    s.seq.cache T (tn i) = some v := by
  have hC := Sys.coupled_run cfg V T tn ls Sys.init s e (Sys.coupled_init T) h
  rcases Sys.step_conc_one cfg V T tn s s' l e' hs with ⟨_, hsame⟩ | ⟨l', _, hl'⟩
  · rw [hsame] at hd; exact absurd hd (hnd _)
  · rw [← hC (tn i)]
    exact (value_was_served tn s.conc s'.conc l' i v hnd hl' hd).1

/-- S8 (kept as documentation): with the unchecked re-read a removal between the wake-up and the re-read yields neither -/
theorem s8_nilnil :
    (runL ⟨true, .lastWaiter, false⟩ (fun _ => "c") init
      [.getStart 0, .getRegister 0, .deliver true [("c", "v")], .getWake 0, .evict "c", .getReread 0]).map (fun s => s.pc 0)
    = some (.done .nilnil) := by decide

example : (runL V (fun _ => "c") init
      [.getStart 0, .getRegister 0, .deliver true [("c", "v")], .getWake 0, .evict "c", .getReread 0]).map (fun s => s.pc 0)
    = some (.done .err) := by decide

/-! ## A lookup inside `Watch` (`Model/Flow.lean`)

The lookup that creates a notifier calls `Watch` with `m.mu` held; `Watch` takes `c.mu` and waits for room in the request
channel. Bounded time therefore depends on the request path: the theorem says the only state in which a lookup inside
`Watch` can wait for ever (transport not stalled) is the S12 shape, which needs a channel filled to capacity (see C07). -/

theorem facts_flow : Generated.flow = Flow.expectedFacts := by decide

/-- **full statement** (false as it stands, see `C07.s12_deadlock_reachable`): a lookup inside `Watch` always gets out.
**Proved part**: if nothing in the client can move and the transport is not stalled, then either no lookup is inside
`Watch`, or the client is in the S12 shape -/
theorem watch_returns_partial {α : Type} (ls : List (Flow.Lbl α)) (s : Flow.S α)
    (h : Flow.run Generated.seq.reqCap Flow.init ls = some s) (hns : s.stalled = false)
    (hst : Flow.Stuck Generated.seq.reqCap s) (i : Nat) (r : α) (hp : s.pc i = .want r ∨ s.pc i = .locked r) :
    Flow.S12 Generated.seq.reqCap s := by
  rcases Flow.stuck_cases (by decide) (Flow.reachable h).inv hns hst with hq | h12
  · rcases hq.1 i with e | e <;> rcases hp with hp | hp <;> rw [hp] at e <;> cases e
  · exact h12

/-- **bounded in steps**: once the transport moves, a lookup inside `Watch` is released after at most `work` further steps
of the client (or the client is in S12): the client cannot keep itself busy for ever (no livelock) -/
theorem watch_released_in_bounded_steps {α : Type} (ls0 : List (Flow.Lbl α)) (s : Flow.S α)
    (h0 : Flow.run Generated.seq.reqCap Flow.init ls0 = some s) :
    ∃ n, ∀ (ls : List (Flow.Lbl α)) (s' : Flow.S α), (∀ l ∈ ls, l.internal = true) → Flow.run Generated.seq.reqCap s ls = some s' →
      ls.length ≤ Flow.work n s := by
  obtain ⟨n, hn⟩ := Flow.supp_reachable Flow.supp_init h0
  exact ⟨n, fun ls s' hall h => (Flow.comes_to_rest (by decide) (Flow.reachable h0) hn ls hall h).1⟩

/-- below capacity a lookup inside `Watch` is never stuck: with room in the channel its `sendRequest` completes -/
theorem watch_returns_below_capacity {α : Type} (s : Flow.S α) (i : Nat) (r : α) (hp : s.pc i = .locked r)
    (hroom : s.queue.length < Generated.seq.reqCap) : (Flow.step Generated.seq.reqCap s (.pEnq i)).isSome = true := by
  simp [Flow.step, hp, Flow.canEnq, hroom]

/-- after the client has been stopped a lookup inside `Watch` gives up at once, whatever the channel holds (S9) -/
theorem watch_returns_after_stop {α : Type} (s : Flow.S α) (i : Nat) (r : α) (hp : s.pc i = .locked r)
    (hc : s.closed = true) : (Flow.step Generated.seq.reqCap s (.pEnq i)).isSome = true := by
  simp [Flow.step, hp, Flow.canEnq, hc]

end XdsVerif.Properties.C05
