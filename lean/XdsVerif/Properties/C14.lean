import XdsVerif.Proofs.Fqdn
import XdsVerif.Generated.Facts
/-!
# C14 — a service address is bound to the listener the name table designates

Pure part (all host spellings, all tables, all namespace/domain configurations). The binding of
the served listener over histories (`lds_binding`) is part of C01's refinement theorem, whose
LDS filter is `Fqdn.listenerName` applied to the name table current at the push.
-/
namespace XdsVerif.Properties.C14
open XdsVerif.Fqdn

/-- bridge: the literals in tryExpandFQDN / getListenerName are the ones the model was written against -/
theorem facts_fqdn : Generated.fqdn = expectedFacts := by decide

/-- already-qualified names are left unchanged -/
theorem expand_qualified_unchanged (ns dom h : Str) (hq : hasInfix svc h = true) :
    expand ns dom h = h := expand_qualified ns dom h hq

/-- expansion is idempotent -/
theorem expand_idempotent (ns dom h : Str) : expand ns dom (expand ns dom h) = expand ns dom h := by
  rcases expand_cases ns dom h with hc | hc
  · exact expand_qualified ns dom _ hc
  · rw [hc]; exact hc

/-- what is appended, by number of labels, for a name that is not yet qualified -/
theorem expand_shape (ns dom h : Str) (hq : hasInfix svc h = false) :
    ((splitOn '.' h).length = 1 → expand ns dom h = h ++ ['.'] ++ ns ++ svc ++ dom) ∧
    ((splitOn '.' h).length = 2 → expand ns dom h = h ++ svc ++ dom) ∧
    ((splitOn '.' h).length = 3 → (splitOn '.' h)[2]? = some "svc".toList → expand ns dom h = h ++ ['.'] ++ dom) ∧
    ((splitOn '.' h).length = 3 → (splitOn '.' h)[2]? ≠ some "svc".toList → expand ns dom h = h) ∧
    ((splitOn '.' h).length ≥ 4 → expand ns dom h = h ++ ['.'] ++ ns ++ svc ++ dom) := by
  refine ⟨?_, ?_, ?_, ?_, ?_⟩
  · intro hl; simp [expand, hq, hl]
  · intro hl; simp [expand, hq, hl]
  · intro hl h3
    unfold expand
    simp only [hq, Bool.false_eq_true, if_false, hl, h3, if_true]
  · intro hl h3
    unfold expand
    simp only [hq, Bool.false_eq_true, if_false, hl, h3, if_false]
  · intro hl
    unfold expand
    simp only [hq, Bool.false_eq_true, if_false]
    split <;> first | omega | rfl

/-- host comparison ignores case: spellings with the same lower-case form resolve identically -/
theorem resolve_case_insensitive (ns dom : Str) (t : Table) (h1 h2 : Str) (h : lower h1 = lower h2) :
    resolve ns dom t h1 = resolve ns dom t h2 := by
  unfold resolve; rw [h]

/-- the expanded (fully qualified) name is consulted first -/
theorem resolve_fqdn_first (ns dom : Str) (t : Table) (host ip : Str)
    (h : firstIp t (expand ns dom (lower host)) = some ip) : resolve ns dom t host = ip := by
  unfold resolve; rw [resolveL_eq, h]

/-- otherwise the literal host is the fall-back; nothing else is ever consulted -/
theorem resolve_literal_fallback (ns dom : Str) (t : Table) (host : Str)
    (h : firstIp t (expand ns dom (lower host)) = none) :
    resolve ns dom t host = (firstIp t (lower host)).getD [] := by
  unfold resolve; rw [resolveL_eq, h]

/-- the listener name is `<ip>_<port>`, port 80 by default -/
theorem listener_name_format (ns dom : Str) (t : Table) (r L : Str) :
    listenerName ns dom t r = some L ↔
      ∃ addr port, (splitOn ':' r = [addr] ∧ port = "80".toList ∨ splitOn ':' r = [addr, port]) ∧
        resolve ns dom t addr ≠ [] ∧ L = resolve ns dom t addr ++ "_".toList ++ port := by
  unfold listenerName
  split
  · rename_i addr hs
    constructor
    · intro h
      simp only at h
      split at h
      · rename_i hl
        cases h
        exact ⟨addr, "80".toList, Or.inl ⟨hs, rfl⟩, by intro h0; simp [h0] at hl, rfl⟩
      · cases h
    · rintro ⟨a, p, hsp, hne, rfl⟩
      rcases hsp with ⟨h1, rfl⟩ | h1
      · rw [hs] at h1; cases h1
        have : (resolve ns dom t addr).length > 0 := by
          cases hr : resolve ns dom t addr with
          | nil => exact absurd hr hne
          | cons _ _ => simp
        simp [this]
      · rw [hs] at h1; cases h1
  · rename_i addr port hs
    constructor
    · intro h
      simp only at h
      split at h
      · rename_i hl
        cases h
        exact ⟨addr, port, Or.inr hs, by intro h0; simp [h0] at hl, rfl⟩
      · cases h
    · rintro ⟨a, p, hsp, hne, rfl⟩
      rcases hsp with ⟨h1, _⟩ | h1
      · rw [hs] at h1; cases h1
      · rw [hs] at h1; cases h1
        have : (resolve ns dom t addr).length > 0 := by
          cases hr : resolve ns dom t addr with
          | nil => exact absurd hr hne
          | cons _ _ => simp
        simp [this]
  · rename_i h1 h2
    constructor
    · intro h; cases h
    · rintro ⟨a, p, hsp, _, _⟩
      rcases hsp with ⟨h, _⟩ | h
      · exact absurd h (h1 a)
      · exact absurd h (h2 a p)

/-- hosts the table cannot resolve are never bound to any listener -/
theorem unresolvable_never_bound (ns dom : Str) (t : Table) (r : Str)
    (h : ∀ addr, addr ∈ (splitOn ':' r).head? → firstIp t (expand ns dom (lower addr)) = none ∧ firstIp t (lower addr) = none) :
    listenerName ns dom t r = none := by
  cases hl : listenerName ns dom t r with
  | none => rfl
  | some L =>
    obtain ⟨addr, port, hsp, hne, _⟩ := (listener_name_format ns dom t r L).mp hl
    have hmem : addr ∈ (splitOn ':' r).head? := by
      rcases hsp with ⟨h1, _⟩ | h1 <;> simp [h1]
    obtain ⟨h1, h2⟩ := h addr hmem
    rw [resolve_literal_fallback ns dom t addr h1, h2] at hne
    exact absurd rfl hne

/-- more than one colon is rejected -/
theorem too_many_colons (ns dom : Str) (t : Table) (r : Str) (h : (splitOn ':' r).length ≥ 3) :
    listenerName ns dom t r = none := by
  unfold listenerName
  split <;> simp_all

/-! non-vacuity (hosts of the repo's own TestTryExpandFQDN / TestResolveAddr, and a binding) -/
example : String.ofList (expand "default".toList "cluster.local".toList "echoa".toList) = "echoa.default.svc.cluster.local" := by decide
example : String.ofList (expand "default".toList "cluster.local".toList "echoa.default1".toList) = "echoa.default1.svc.cluster.local" := by decide
example : String.ofList (expand "default".toList "cluster.local".toList "echoa.default.svc".toList) = "echoa.default.svc.cluster.local" := by decide
example : String.ofList (expand "default".toList "cluster.local".toList "www.example.com".toList) = "www.example.com" := by decide
example : (listenerName "default".toList "cluster.local".toList
    [("echoa.default.svc.cluster.local".toList, ["10.0.0.1".toList])] "EchoA:8888".toList).map String.ofList
      = some "10.0.0.1_8888" := by decide

end XdsVerif.Properties.C14
