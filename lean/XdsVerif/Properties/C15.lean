import XdsVerif.Model.Middleware
import XdsVerif.Properties.C09
/-!
# C15 — the routing step decides the destination once and fails closed
-/
namespace XdsVerif.Properties.C15
open XdsVerif.Middleware XdsVerif.Route XdsVerif.Pick

abbrev PF : PickFacts := Generated.pick

/-- **a matched route that selects no cluster fails the call** (it does not fall through to a later route): the route
found by `matchRoute` is the first match whatever its cluster list is (`clusters_play_no_part_in_matching`), and with an
empty list the routing step ends in a routing error for every draw -/
theorem cluster_less_match_fails (F : PickFacts) (rx : String → String → Bool) (l : Listener) (named : String → Lk RouteCfg)
    (grpc : Bool) (md : Meta) (inv : Invocation) (draw : Nat) (r : Route)
    (hm : matchRoute rx (some l) (fun n => (named n).toOption) grpc md inv = .ok r) (hc : r.clusters = []) :
    routeCall F rx (.val l) named grpc md inv draw = .err := by
  simp [routeCall, hm, hc, pick]

/-- whether a route matches a call depends on its match condition alone - not on its clusters, weights or timeout -/
theorem clusters_play_no_part_in_matching (rx : String → String → Bool) (path : String) (md : Meta) (r : Route)
    (cs : List (String × Nat)) (t : Nat) :
    routeMatched rx path md { r with clusters := cs, timeoutMs := t } = routeMatched rx path md r := by
  simp [routeMatched]

/-- undecided destination, route found: tag = picked cluster, locked, timeout = route timeout, passed on exactly once -/
theorem mw_decides_once (c : Call) (cl : String) (t : Nat) (h : c.tag = none) :
    middleware c (.ok cl t) = { call := ⟨some cl, true, t⟩, nextCalls := 1, err := none } := by
  unfold middleware; simp [h]

/-- destination already decided: nothing changes, passed on exactly once, the router is not consulted -/
theorem mw_idempotent_when_tagged (c : Call) (k : String) (route : RouteOut) (h : c.tag = some k) :
    middleware c route = { call := c, nextCalls := 1, err := none } := by
  unfold middleware; simp [h]

/-- no route: routing error, not passed on, destination left undecided -/
theorem mw_fail_closed (c : Call) (h : c.tag = none) :
    middleware c .err = { call := c, nextCalls := 0, err := some .route } ∧ (middleware c .err).call.tag = none := by
  unfold middleware; simp [h]

/-- the retry-key computation makes the same routing decision as the middleware -/
theorem retry_key_same_routing (mm : Bool) (c : Call) (route : RouteOut) (method : String) (hp : route ≠ .panic) :
    (retryKey mm c route method).call = (middleware c route).call := by
  unfold retryKey middleware
  cases c.tag with
  | some k => rfl
  | none => cases route <;> simp_all

/-- after either step ran once the destination is decided or the step failed closed; running the
middleware afterwards changes nothing (decided once) -/
theorem decided_once (mm : Bool) (c : Call) (route route' : RouteOut) (method : String) (cl : String) (t : Nat)
    (hr : route = .ok cl t) :
    middleware (retryKey mm c route method).call route' =
      { call := (retryKey mm c route method).call, nextCalls := 1, err := none } := by
  subst hr
  unfold retryKey middleware
  cases h : c.tag <;> simp [h]

/-- **no panic**: whatever well-shaped answers the lookups give (errors or values), routing never panics -/
theorem route_never_panics (rx : String → String → Bool) (lis : Lk Listener) (named : String → Lk RouteCfg)
    (grpc : Bool) (md : Meta) (inv : Invocation) (draw : Nat)
    (hl : lis.wellShaped = true) (hn : ∀ n, (named n).wellShaped = true) :
    routeCall PF rx lis named grpc md inv draw ≠ .panic := by
  unfold routeCall
  cases lis with
  | err => simp
  | nilnil => simp [Lk.wellShaped] at hl
  | typedNil => simp [Lk.wellShaped] at hl
  | val l =>
    simp only
    split
    · rename_i r _
      have := C09.never_panics (r.clusters.map (·.2)) draw
      split
      · split <;> simp
      · simp
      · rename_i hp; exact absurd hp this
    · split
      · simp [hn]
      · simp
    · simp

/-- hence neither the middleware nor the retry-key computation panics -/
theorem steps_never_panic (rx : String → String → Bool) (lis : Lk Listener) (named : String → Lk RouteCfg)
    (grpc : Bool) (md : Meta) (inv : Invocation) (draw : Nat) (c : Call) (mm : Bool) (method : String)
    (hl : lis.wellShaped = true) (hn : ∀ n, (named n).wellShaped = true) :
    (middleware c (routeCall PF rx lis named grpc md inv draw)).panicked = false ∧
    (retryKey mm c (routeCall PF rx lis named grpc md inv draw) method).panicked = false := by
  have h := route_never_panics rx lis named grpc md inv draw hl hn
  unfold middleware retryKey
  cases c.tag with
  | some k => exact ⟨rfl, rfl⟩
  | none =>
    cases hr : routeCall PF rx lis named grpc md inv draw with
    | ok cl t => exact ⟨rfl, rfl⟩
    | err => exact ⟨rfl, rfl⟩
    | panic => exact absurd hr h

/-- a failed listener lookup is a routing error (fail closed at the first step) -/
theorem listener_failure_is_route_error (rx : String → String → Bool) (named : String → Lk RouteCfg)
    (grpc : Bool) (md : Meta) (inv : Invocation) (draw : Nat) :
    routeCall PF rx .err named grpc md inv draw = .err := rfl

/-! non-vacuity -/
example : middleware ⟨none, false, 0⟩ (.ok "c1" 250) = { call := ⟨some "c1", true, 250⟩, nextCalls := 1, err := none } := by decide
example : (routeCall PF (fun _ _ => false) (.val ⟨[⟨false, "rc", 0, none⟩]⟩) (fun _ => .err) true [] ⟨"p", "s", "m", "m"⟩ 0) = .err := by decide

end XdsVerif.Properties.C15
