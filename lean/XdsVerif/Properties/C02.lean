import XdsVerif.Proofs.Seq
import XdsVerif.Properties.C01
/-!
# C02 — each response is ACKed or NACKed correctly; a NACK changes nothing
About `step cfg s (.push r now)` in an arbitrary state `s` (hence at any point of any history).
-/
namespace XdsVerif.Properties.C02
open XdsVerif.Seq XdsVerif.Spec.Seq

theorem facts_seq : Generated.seq = Seq.expectedFacts := C01.facts_seq

/-- exactly one request is enqueued for a response of a watched type; it echoes the nonce, lists the
interest set, and carries the response's version without error detail iff every resource decoded,
otherwise the last accepted version with an error detail -/
theorem ack_exact (cfg : Cfg) (s s' : St) (r : Resp) (now : Nat) (ws : List Name)
    (hw : s.watched r.rt = some ws) (hs : step cfg s (.push r now) = some s') :
    ∃ q, s'.queue = s.queue ++ [q] ∧ q.rt = r.rt ∧ q.nonce = r.nonce ∧ q.names = ws ∧
      (r.decodes = true → q.version = r.version ∧ q.err = false) ∧
      (r.decodes = false → q.version = s.version r.rt ∧ q.err = true) := by
  simp only [step, hw] at hs
  split at hs; · cases hs
  split at hs; · cases hs
  split at hs; · cases hs
  have hq : ∀ s2 : St, s2.queue = (ack s r r.decodes s.recvStream).queue →
      ∃ q, s2.queue = s.queue ++ [q] ∧ q.rt = r.rt ∧ q.nonce = r.nonce ∧ q.names = ws ∧
      (r.decodes = true → q.version = r.version ∧ q.err = false) ∧
      (r.decodes = false → q.version = s.version r.rt ∧ q.err = true) := by
    intro s2 h2
    refine ⟨_, by rw [h2]; rfl, rfl, by simp [mkReq], by simp [mkReq, hw], ?_, ?_⟩
    · intro hd; simp [mkReq, hd]
    · intro hd; simp [mkReq, hd]
  split at hs
  · cases hs; exact hq _ rfl
  · split at hs <;> cases hs <;> exact hq _ rfl

/-- a rejected response leaves the cache, the name table, the acknowledged version, the interest set and
the access bookkeeping exactly as they were (only the nonce and the request queue change) -/
theorem nack_frame (cfg : Cfg) (s s' : St) (r : Resp) (now : Nat)
    (hd : r.decodes = false) (hs : step cfg s (.push r now) = some s') :
    s'.cache = s.cache ∧ s'.table = s.table ∧ s'.version = s.version ∧ s'.watched = s.watched ∧ s'.acc = s.acc := by
  simp only [step] at hs
  split at hs; · cases hs
  split at hs
  · cases hs; exact ⟨rfl, rfl, rfl, rfl, rfl⟩
  · split at hs; · cases hs
    split at hs; · cases hs
    simp only [hd, Bool.not_false, if_true] at hs
    cases hs
    exact ⟨rfl, rfl, ack_version_false s r _, rfl, rfl⟩

/-- responses of unknown or never-subscribed types are neither acknowledged nor applied -/
theorem unknown_ignored (cfg : Cfg) (s s' : St) :
    (step cfg s .pushUnknown = some s' → s' = s) ∧
    (∀ r now, s.watched r.rt = none → step cfg s (.push r now) = some s' → s' = s) := by
  constructor
  · intro h; simp only [step] at h; split at h <;> cases h; rfl
  · intro r now hw h
    simp only [step, hw] at h
    split at h <;> cases h; rfl

/-- the acknowledged version after any history is that of the most recent accepted response of the type -/
theorem version_is_last_accepted (cfg : Cfg) (ops : List Op) (s : St) (h : run cfg init ops = some s) (rt : RType) :
    s.version rt = versionAt ops.reverse rt := by
  have := agree_run cfg ops init s [] (agree_init cfg) h
  simpa using this.version rt

/-- what is rejected: any undecodable slot rejects the whole response; an empty name-table response is rejected -/
theorem decodes_iff (r : Resp) :
    r.decodes = true ↔ (if r.rt = .nds then r.slots ≠ [] ∧ r.table.isSome = true else ∀ sl ∈ r.slots, sl.isGood = true) := by
  unfold Resp.decodes
  cases hr : r.rt <;> simp [List.all_eq_true]
  cases r.slots <;> simp

/-! non-vacuity: a NACK after an ACK keeps the version and the cache -/
example : (run C01.exCfg init (C01.exOps ++
    [.push { rt := .lds, version := "2", nonce := "c", slots := [.good "10.0.0.1_8888" "L2", .bad] } 0])).map
      (fun s => (s.version .lds, s.cache .lds "echo:8888", s.queue.map (fun q => (q.version, q.nonce, q.err))))
    = some ("1", some "L1", [("1", "c", true)]) := by decide

end XdsVerif.Properties.C02
