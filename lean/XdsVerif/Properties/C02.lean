import XdsVerif.Properties.C03
import XdsVerif.Proofs.Seq
import XdsVerif.Properties.C01
import XdsVerif.Properties.C13
/-!
# C02 — each response is ACKed or NACKed correctly; a NACK changes nothing
About `step cfg s (.push r now)` in an arbitrary state `s` (hence at any point of any history).
-/
namespace XdsVerif.Properties.C02
open XdsVerif.Seq XdsVerif.Spec.Seq

theorem facts_seq : Generated.seq = Seq.expectedFacts := C01.facts_seq

/-- exactly one request is enqueued for a response of a watched type; it echoes the nonce, lists the
interest set, and carries the response's version without error detail iff every resource decoded,
otherwise the last accepted version with an error detail -/
theorem ack_exact (cfg : Cfg) (s s' : St) (r : Resp) (now : Nat) (ws : List Name)
    (hw : s.watched r.rt = some ws) (hs : step cfg s (.push r now) = some s') :
    ∃ q, s'.queue = s.queue ++ [q] ∧ q.rt = r.rt ∧ q.nonce = r.nonce ∧ q.names = ws ∧
      (r.decodes = true → q.version = r.version ∧ q.err = false) ∧
      (r.decodes = false → q.version = s.version r.rt ∧ q.err = true) := by
  simp only [step, hw] at hs
  split at hs; · cases hs
  split at hs; · cases hs
  split at hs; · cases hs
  have hq : ∀ s2 : St, s2.queue = (ack s r r.decodes s.recvStream).queue →
      ∃ q, s2.queue = s.queue ++ [q] ∧ q.rt = r.rt ∧ q.nonce = r.nonce ∧ q.names = ws ∧
      (r.decodes = true → q.version = r.version ∧ q.err = false) ∧
      (r.decodes = false → q.version = s.version r.rt ∧ q.err = true) := by
    intro s2 h2
    refine ⟨_, by rw [h2]; rfl, rfl, by simp [mkReq], by simp [mkReq, hw], ?_, ?_⟩
    · intro hd; simp [mkReq, hd]
    · intro hd; simp [mkReq, hd]
  split at hs
  · cases hs; exact hq _ rfl
  · split at hs <;> cases hs <;> exact hq _ rfl

/-- a rejected response leaves the cache, the name table, the acknowledged version, the interest set and
the access bookkeeping exactly as they were (only the nonce and the request queue change) -/
theorem nack_frame (cfg : Cfg) (s s' : St) (r : Resp) (now : Nat)
    (hd : r.decodes = false) (hs : step cfg s (.push r now) = some s') :
    s'.cache = s.cache ∧ s'.table = s.table ∧ s'.version = s.version ∧ s'.watched = s.watched ∧ s'.acc = s.acc := by
  simp only [step] at hs
  split at hs; · cases hs
  split at hs
  · cases hs; exact ⟨rfl, rfl, rfl, rfl, rfl⟩
  · split at hs; · cases hs
    split at hs; · cases hs
    simp only [hd, Bool.not_false, if_true] at hs
    cases hs
    exact ⟨rfl, rfl, ack_version_false s r _, rfl, rfl⟩

/-- responses of unknown or never-subscribed types are neither acknowledged nor applied -/
theorem unknown_ignored (cfg : Cfg) (s s' : St) :
    (step cfg s .pushUnknown = some s' → s' = s) ∧
    (∀ r now, s.watched r.rt = none → step cfg s (.push r now) = some s' → s' = s) := by
  constructor
  · intro h; simp only [step] at h; split at h <;> cases h; rfl
  · intro r now hw h
    simp only [step, hw] at h
    split at h <;> cases h; rfl

/-- the acknowledged version after any history is that of the most recent accepted response of the type -/
theorem version_is_last_accepted (cfg : Cfg) (ops : List Op) (s : St) (h : run cfg init ops = some s) (rt : RType) :
    s.version rt = versionAt ops.reverse rt := by
  have := agree_run cfg ops init s [] (agree_init cfg) h
  simpa using this.version rt

/-- what is rejected: any undecodable slot rejects the whole response; an empty name-table response is rejected -/
theorem decodes_iff (r : Resp) :
    r.decodes = true ↔ (if r.rt = .nds then r.slots ≠ [] ∧ r.table.isSome = true else ∀ sl ∈ r.slots, sl.isGood = true) := by
  unfold Resp.decodes
  cases hr : r.rt <;> simp [List.all_eq_true]
  cases r.slots <;> simp

/-! ### what "undecodable" means: the slots of the state machine against the decoder model (C11–C13)

The state machine abstracts a response to a list of slots (`good name content` / `bad`). The decoder model works on
message trees. The two are tied here: a slot is `bad` exactly when the decoder model reports an error for that
resource, so "NACK" in `ack_exact` / `nack_frame` is "the decoder rejected something" and nothing else. -/

/-- the slots of a route-table response (content stamp = the table's name; the field content is C11) -/
def slotsOfRDS (xs : List (Decode.PAny Decode.PRouteConfiguration)) : List Slot :=
  xs.map (fun x => match x with
    | .ok c => if C13.rcValid c then .good c.name c.name else .bad
    | _ => .bad)

theorem slotsOfRDS_all_good (xs : List (Decode.PAny Decode.PRouteConfiguration)) :
    (slotsOfRDS xs).all Slot.isGood = xs.all C13.slotValidR := by
  induction xs with
  | nil => rfl
  | cons x xs ih =>
    simp only [slotsOfRDS, List.map_cons, List.all_cons] at ih ⊢
    rw [ih]
    cases x with
    | badUrl => simp [C13.slotValidR, Slot.isGood]
    | badBytes => simp [C13.slotValidR, Slot.isGood]
    | ok c =>
      simp only [C13.slotValidR]
      cases C13.rcValid c <;> simp [Slot.isGood]

/-- **a route-table response is NACKed exactly when the decoder reports an error** (wrong type URL, invalid bytes, a
route without match or action), for every list of payloads `proto.Unmarshal` can produce -/
theorem rds_nack_iff_decoder_error (compiles : Decode.Oracles) (xs : List (Decode.PAny Decode.PRouteConfiguration))
    (hw : xs.all C13.slotWireR = true) (d : Decode.Decoded Decode.DRouteCfg)
    (h : Decode.decodeRDS C13.F compiles xs = .ok d) (version nonce : String) :
    ({ rt := .rds, version := version, nonce := nonce, slots := slotsOfRDS xs } : Resp).decodes = true ↔ d.errors = [] := by
  rw [C13.rds_error_iff_invalid compiles xs hw d h]
  simp only [Resp.decodes]
  rw [slotsOfRDS_all_good]

/-- clusters and load assignments: a slot is bad exactly when its payload has the wrong type URL or does not parse -/
def slotsOfCE {α : Type} (nameOf : α → Name) (xs : List (DecodeCE.Slot α)) : List Slot :=
  xs.map (fun x => match x with | .ok c => .good (nameOf c) (nameOf c) | _ => .bad)

theorem cds_nack_iff_decoder_error (cs : List (DecodeCE.Slot DecodeCE.PCluster)) (version nonce : String) :
    ({ rt := .cds, version := version, nonce := nonce, slots := slotsOfCE (·.name) cs } : Resp).decodes = true ↔
      (DecodeCE.decodeCDS cs).errors = 0 := by
  rw [(C13.cds_eds_error_iff cs []).1]
  simp only [Resp.decodes, slotsOfCE, List.all_map, List.all_eq_true]
  constructor
  · intro h s hs
    have := h s hs
    cases s with
    | ok c => exact ⟨c, rfl⟩
    | badUrl => simp [Slot.isGood] at this
    | badBytes => simp [Slot.isGood] at this
  · intro h s hs
    obtain ⟨c, hc⟩ := h s hs
    subst hc; simp [Slot.isGood]

/-! non-vacuity: a NACK after an ACK keeps the version and the cache -/
example : (run C01.exCfg init (C01.exOps ++
    [.push { rt := .lds, version := "2", nonce := "c", slots := [.good "10.0.0.1_8888" "L2", .bad] } 0])).map
      (fun s => (s.version .lds, s.cache .lds "echo:8888", s.queue.map (fun q => (q.version, q.nonce, q.err))))
    = some ("1", some "L1", [("1", "c", true)]) := by decide

/-! ## The acknowledgement on its way to the wire (`Model/Flow.lean`)

`ack_exact` says which request `updateAndACK` hands to `sendRequest`. Between there and the control plane lie the bounded
channel and the sender. The acknowledging receiver is the `rResp / rAckLock / rAckEnq` thread of the request-path model. -/

theorem facts_flow : Generated.flow = Flow.expectedFacts := C03.facts_flow

/-- **exactly one request per response reaches the wire** while the stream lives: at quiescence of a stream that has
not failed, the wire is exactly the sequence of requests handed to `sendRequest` — the acknowledgement among them, once,
in its place — whatever else filled the channel in between -/
theorem ack_reaches_wire_once {α : Type} (ls : List (Flow.Lbl α)) (s : Flow.S α) (h : Flow.run C03.cap Flow.init ls = some s)
    (hn : Flow.NoFailure s) (hq : s.queue = []) (hi : Flow.inflight s = []) : s.sent.map (·.2) = s.enq :=
  C03.quiescent_wire_complete ls s h hn hq hi

/-- an acknowledgement is never discarded for lack of room: it is queued, sent, in `Send`, or lost together with its stream
(dropped after a failed `Send` / drained by the reconnect — nonces of a dead stream must not be echoed on the next, C04) -/
theorem ack_never_discarded {α : Type} (ls : List (Flow.Lbl α)) (s : Flow.S α) (h : Flow.run C03.cap Flow.init ls = some s) :
    ∀ r ∈ s.enq, r ∈ s.queue ∨ r ∈ s.sent.map (·.2) ∨ r ∈ Flow.inflight s ∨ r ∈ s.dropped.map (·.1) ∨ r ∈ s.drained :=
  C03.request_never_discarded ls s h

/-! non-vacuity: an acknowledgement (7) waits behind a stalled `Send` while two lookups fill the channel; it is sent once -/
example : (Flow.run 2 (Flow.init : Flow.S Nat)
    [.pStart 0 1, .pLock 0, .pEnq 0, .sTakeReq, .stall, .rResp 7, .rAckLock, .rAckEnq, .pStart 1 2, .pLock 1, .pEnq 1,
     .pStart 2 3, .pLock 2, .resume, .sSendDone, .sTakeReq, .pEnq 2, .sSendDone, .sTakeReq, .sSendDone, .sTakeReq, .sSendDone]).map
    (fun s => s.sent.map (·.2)) = some [1, 7, 2, 3] := by decide

/-! ## Bursts of rejected responses; an accepted response moves its own type's version only (added in the last session) -/

/-- **any number of rejected responses in a row, of any types, change nothing**: the cache, the name table, every
acknowledged version, the interest sets and the access bookkeeping after the burst are those before it -/
theorem nack_burst_frame (cfg : Cfg) (rs : List (Resp × Nat)) (s s' : St)
    (hd : ∀ p ∈ rs, p.1.decodes = false)
    (hs : run cfg s (rs.map (fun p => Op.push p.1 p.2)) = some s') :
    s'.cache = s.cache ∧ s'.table = s.table ∧ s'.version = s.version ∧ s'.watched = s.watched ∧ s'.acc = s.acc := by
  induction rs generalizing s with
  | nil => simp only [List.map_nil, run] at hs; cases hs; exact ⟨rfl, rfl, rfl, rfl, rfl⟩
  | cons p rest ih =>
    simp only [List.map_cons, run] at hs
    cases h1 : step cfg s (.push p.1 p.2) with
    | none => simp [h1] at hs
    | some s1 =>
      simp only [h1] at hs
      obtain ⟨a1, a2, a3, a4, a5⟩ := nack_frame cfg s s1 p.1 p.2 (hd p (by simp)) h1
      obtain ⟨b1, b2, b3, b4, b5⟩ := ih s1 (fun q hq => hd q (by simp [hq])) hs
      exact ⟨b1.trans a1, b2.trans a2, b3.trans a3, b4.trans a4, b5.trans a5⟩

/-- an accepted response of a watched type sets the acknowledged version of its own type to the response's version and
leaves the acknowledged version of every other type alone -/
theorem accept_moves_own_version_only (cfg : Cfg) (s s' : St) (r : Resp) (now : Nat) (ws : List Name)
    (hw : s.watched r.rt = some ws) (hd : r.decodes = true) (hs : step cfg s (.push r now) = some s') :
    s'.version r.rt = r.version ∧ ∀ t, t ≠ r.rt → s'.version t = s.version t := by
  simp only [step, hw] at hs
  split at hs; · cases hs
  split at hs; · cases hs
  split at hs; · cases hs
  simp only [hd, Bool.not_true, Bool.false_eq_true, if_false] at hs
  have hv : ∀ s2 : St, s2.version = (ack s r true s.recvStream).version →
      s2.version r.rt = r.version ∧ ∀ t, t ≠ r.rt → s2.version t = s.version t := by
    intro s2 h2
    rw [h2, ack_version_true]
    exact ⟨by simp, fun t ht => by simp [ht]⟩
  split at hs
  · cases hs; exact hv _ rfl
  · cases hs; exact hv _ rfl

end XdsVerif.Properties.C02
