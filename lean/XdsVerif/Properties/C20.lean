import XdsVerif.Proofs.Bootstrap
import XdsVerif.Generated.Facts
/-!
# C20 — node identity and bootstrap validation
For every environment and every result of the (external) JSON parser.
-/
namespace XdsVerif.Properties.C20
open XdsVerif.Bootstrap XdsVerif.Fqdn

/-- bridge: element-wise INSTANCE_IPS test, node-id format, default domain, keys, required variables -/
theorem facts_boot : Generated.boot = Bootstrap.expectedFacts := by decide

abbrev T : IpsTest := Generated.boot.ipsTest
theorem T_element : T = .element := by
  have := facts_boot; unfold T; rw [this]; rfl

/-- every request identifies the node as `sidecar~<ip>~<name>.<ns>~<ns>.svc.<domain>` -/
theorem node_id_format (e : Env) (parsed : Option JObj) (c : Config) (h : newConfig T e parsed = .ok c) :
    c.nodeId = "sidecar~" ++ e.instanceIP ++ "~" ++ e.podName ++ "." ++ e.podNamespace ++ "~" ++ e.podNamespace
                ++ ".svc." ++ (if e.domain = "" then "cluster.local" else e.domain) := by
  unfold newConfig at h
  split at h; · cases h
  split at h; · cases h
  split at h; · cases h
  cases h; rfl

/-- no metadata (or metadata that does not parse) ⇒ exactly `{ISTIO_VERSION}` -/
theorem meta_default (envs : String) (parsed : Option JObj) (v : String) (ip : Str)
    (h : envs = "" ∨ parsed = none) : parseMeta T envs parsed v ip = [("ISTIO_VERSION", .str v.toList)] := by
  unfold parseMeta
  rcases h with h | h
  · simp [h]
  · subst h; split <;> rfl

/-- the pod IP is an *element* of INSTANCE_IPS whenever that key is supplied -/
theorem instance_ips_member (envs : String) (o : JObj) (v : String) (ip : Str) (v0 : JV)
    (he : envs ≠ "") (hk : lookup o "INSTANCE_IPS" = some v0) (hip : ',' ∉ ip) :
    ∃ s, lookup (parseMeta T envs (some o) v ip) "INSTANCE_IPS" = some (.str s) ∧ ip ∈ splitOn ',' s := by
  unfold parseMeta
  simp only [he, if_false, hk]
  refine ⟨_, lookup_set_self o _ _ v0 hk, ?_⟩
  split
  · rw [splitOn_no_sep ',' ip hip]; simp
  · split
    · rename_i hl
      rw [T_element] at hl
      simpa [listed] using hl
    · rw [show v0.getString ++ [','] ++ ip = v0.getString ++ ',' :: ip by simp, splitOn_append_sep,
        splitOn_no_sep ',' ip hip]
      simp

/-- what was supplied is kept: an already listed pod IP leaves the value as it was, otherwise it is appended -/
theorem instance_ips_value (envs : String) (o : JObj) (v : String) (ip : Str) (v0 : JV)
    (he : envs ≠ "") (hk : lookup o "INSTANCE_IPS" = some v0) :
    lookup (parseMeta T envs (some o) v ip) "INSTANCE_IPS" =
      some (.str (if v0.getString = [] then ip
                  else if ip ∈ splitOn ',' v0.getString then v0.getString
                  else v0.getString ++ [','] ++ ip)) := by
  unfold parseMeta
  simp only [he, if_false, hk]
  rw [lookup_set_self o _ _ v0 hk, T_element]
  simp [listed]

/-- all other user-supplied keys are carried unchanged -/
theorem meta_passthrough (envs : String) (o : JObj) (v : String) (ip : Str) (k : String)
    (he : envs ≠ "") (hk : k ≠ "INSTANCE_IPS") :
    lookup (parseMeta T envs (some o) v ip) k = lookup o k := by
  unfold parseMeta
  simp only [he, if_false]
  split
  · rfl
  · exact lookup_set_other o _ k _ hk

/-- a non-empty NAMESPACE entry in the metadata overrides the pod namespace for name expansion -/
theorem namespace_override (e : Env) (parsed : Option JObj) (c : Config) (h : newConfig T e parsed = .ok c) :
    c.configNamespace =
      match lookup c.metadata "NAMESPACE" with
      | some v => if v.getString ≠ [] then String.ofList v.getString else e.podNamespace
      | none => e.podNamespace := by
  unfold newConfig at h
  split at h; · cases h
  split at h; · cases h
  split at h; · cases h
  cases h; rfl

/-- initialisation fails — no half-configured client — when namespace, name or IP is missing -/
theorem init_errors (e : Env) (parsed : Option JObj) :
    (e.podNamespace = "" ∨ e.podName = "" ∨ e.instanceIP = "") ↔ ∃ err, newConfig T e parsed = .error err := by
  unfold newConfig
  constructor
  · intro h
    by_cases h1 : e.podNamespace = ""
    · exact ⟨.noNamespace, by simp [h1]⟩
    · by_cases h2 : e.podName = ""
      · exact ⟨.noName, by simp [h1, h2]⟩
      · by_cases h3 : e.instanceIP = ""
        · exact ⟨.noIP, by simp [h1, h2, h3]⟩
        · rcases h with h | h | h <;> contradiction
  · rintro ⟨err, h⟩
    by_cases h1 : e.podNamespace = ""
    · exact Or.inl h1
    · by_cases h2 : e.podName = ""
      · exact Or.inr (Or.inl h2)
      · by_cases h3 : e.instanceIP = ""
        · exact Or.inr (Or.inr h3)
        · simp [h1, h2, h3] at h

/-- a failed construction installs nothing -/
theorem init_error_installs_nothing {M : Type} (err : BootErr) :
    init (none : Option M) (.error err) = (none, false) := rfl

/-- initialising twice keeps the first manager -/
theorem init_first_wins {M : Type} (m1 m2 : M) (cur : Option M) :
    setManager (setManager cur m1) m2 = setManager cur m1 ∧
    (init (setManager (none : Option M) m1) (.ok m2)).1 = some m1 := by
  cases cur <;> exact ⟨rfl, rfl⟩

/-- bridge: `xds.Init`, `SetXDSResourceManager` and `XDSInited` have the bodies the singleton model was written against -/
theorem facts_init : Generated.initShape = true := by decide

/-- **a failed initialisation stays failed**: as long as every attempt finds the environment incomplete, every call of
`Init` reports an error and nothing is installed — the second and the tenth call like the first -/
theorem init_failures_all_reported {M : Type} (builds : List (Except BootErr M)) (h : ∀ b ∈ builds, ∃ e, b = .error e) :
    initRun (none : Option M) builds = (none, builds.map (fun _ => false)) := by
  induction builds with
  | nil => rfl
  | cons b bs ih =>
    obtain ⟨e, he⟩ := h b (by simp)
    subst he
    have := ih (fun b hb => h b (by simp [hb]))
    simp [initRun, init, this]

/-- once a manager is installed every later call returns nil and keeps it, whatever the environment has become -/
theorem init_after_success {M : Type} (m : M) (builds : List (Except BootErr M)) :
    initRun (some m) builds = (some m, builds.map (fun _ => true)) := by
  induction builds with
  | nil => rfl
  | cons b bs ih => simp [initRun, init, ih]

/-- the first successful construction is the one installed, after any number of failed attempts -/
theorem init_first_success_wins {M : Type} (fails : List (Except BootErr M)) (h : ∀ b ∈ fails, ∃ e, b = .error e) (m : M)
    (later : List (Except BootErr M)) :
    (initRun (none : Option M) (fails ++ .ok m :: later)).1 = some m := by
  induction fails with
  | nil => simp [initRun, init, setManager, init_after_success]
  | cons b bs ih =>
    obtain ⟨e, he⟩ := h b (by simp)
    subst he
    have := ih (fun b hb => h b (by simp [hb]))
    simp only [List.cons_append, initRun, init]
    exact this

/-- **overlapping first initialisations keep one manager**: in whatever order the callers obtain the holder's lock, what
is installed after each of them - hence what any caller sees once its own call has returned, and what is installed in
the end - is the manager of the caller that came first -/
theorem set_overlapping_one_winner {M : Type} (m : M) (ms : List M) :
    ∀ x ∈ setRun (none : Option M) (m :: ms), x = some m := by
  have h : ∀ (l : List M) (c : M), ∀ x ∈ setRun (some c) l, x = some c := by
    intro l c
    induction l with
    | nil => intro x hx; cases hx
    | cons a as ih =>
      intro x hx
      simp only [setRun, setManager, List.mem_cons] at hx
      rcases hx with rfl | hx
      · rfl
      · exact ih x hx
  intro x hx
  simp only [setRun, setManager, List.mem_cons] at hx
  rcases hx with rfl | hx
  · rfl
  · exact h ms m x hx

example : setRun (none : Option Nat) [3, 1, 2] = [some 3, some 3, some 3] := by decide

example : initRun (none : Option Nat) [.error .noName, .error .noNamespace, .ok 7, .error .noIP, .ok 9] = (some 7, [false, false, true, true, true]) := by decide

/-! non-vacuity: the prefix case that separates element from substring membership -/
example : (lookup (parseMeta T "x" (some [("INSTANCE_IPS", .str "10.0.0.10".toList)]) "1.0" "10.0.0.1".toList) "INSTANCE_IPS")
    = some (.str "10.0.0.10,10.0.0.1".toList) := by decide
example : (newConfig T ⟨"ns", "pod", "1.2.3.4", "", "", ""⟩ none).toOption.map (·.nodeId)
    = some "sidecar~1.2.3.4~pod.ns~ns.svc.cluster.local" := by decide

end XdsVerif.Properties.C20
