import XdsVerif.Proofs.Flow
import XdsVerif.Proofs.Seq
import XdsVerif.Proofs.Stream
import XdsVerif.Properties.C01
import XdsVerif.Proofs.Sys
/-!
# C04 — stream failures: resubscribe, per-stream nonces, cache kept, clean stop

Fault operations (`authFail`, `reconnectDrain`, `publish`, `senderAdopt` with a failing `Send`,
`senderSend true`) may occur at *any* position of a history, repeatedly.
Environment assumptions, explicit in the model's enabling conditions: (E1) a stream whose `Send`
fails will fail `Recv`; (E2) the control plane answers, it does not speak first (a response of a
type is delivered on a stream only after a request of that type was sent on it).
-/
namespace XdsVerif.Properties.C04
open XdsVerif.Seq XdsVerif.Spec.Seq

theorem facts_seq : Generated.seq = Seq.expectedFacts := C01.facts_seq

/-- bridge: `sendRequest` gives up once the client has been stopped -/
theorem facts_send_aborts : Generated.sendAborts = true := by decide

/-- **per-stream nonces**: no request ever sent on a stream carries a nonce that was not issued on that same stream -/
theorem nonce_per_stream (cfg : Cfg) (ops : List Op) (s : St) (h : run cfg init ops = some s) :
    ∀ kq ∈ s.wire, kq.2.nonce = "" ∨ (kq.1, kq.2.nonce) ∈ s.issued :=
  (sinv_run cfg ops init s sinv_init h).j3

/-- **per-stream nonces with concurrent lookups** (`Model/Sys.lean`): lookups racing a stream failure (their `Watch`
enqueues a request at any point of the reconnect) never put a foreign nonce on a stream, in any interleaving whose
response handlers run their sections back to back -/
theorem nonce_per_stream_concurrent (cfg : Cfg) (V : Conc.Variant) (T : RType) (tn : Nat → Name)
    (ls : List Sys.Lbl) (s : Sys.St) (e : Sys.Emit) (ha : Sys.atomic ls = true)
    (h : Sys.run cfg V T tn Sys.init ls = some (s, e)) :
    ∀ kq ∈ s.seq.wire, kq.2.nonce = "" ∨ (kq.1, kq.2.nonce) ∈ s.seq.issued :=
  nonce_per_stream cfg e.seq s.seq (Sys.run_seq cfg V T tn ls Sys.init s e rfl ha h).1

/-- **resubscription**: when the sender adopts stream `k` it sends exactly one request per watched type, with the
full name set, the last accepted version, no error, and a nonce that is empty or was issued on `k` -/
theorem resubscribe_on_adopt (cfg : Cfg) (ops : List Op) (s s' : St) (order : List RType) (upto k : Nat)
    (hr : run cfg init ops = some s) (hp : s.pending = some k) (hc : s.closed = false) (hu : order.length ≤ upto)
    (hs : step cfg s (.senderAdopt order upto) = some s') :
    s'.wire = s.wire ++ order.map (fun rt => (k, mkReq s rt false)) ∧
    isPerm order (watchedTypes s) = true ∧
    (∀ rt ∈ order, (mkReq s rt false).names = (s.watched rt).getD [] ∧ (mkReq s rt false).version = s.version rt ∧
        ((mkReq s rt false).nonce = "" ∨ (k, (mkReq s rt false).nonce) ∈ s.issued)) ∧
    s'.senderStream = some k := by
  have hI := sinv_run cfg ops init s sinv_init hr
  simp only [step, hp] at hs
  split at hs
  · rename_i h; rw [hc] at h; cases h
  · split at hs
    · cases hs
    · rename_i hperm
      split at hs
      · rename_i hlt; simp only [List.length_map] at hlt; omega
      · cases hs
        refine ⟨rfl, by simpa using hperm, ?_, rfl⟩
        intro rt _
        refine ⟨rfl, rfl, ?_⟩
        by_cases hkr : k = s.recvStream
        · rw [hkr]; exact hI.j2 rt
        · have hh := hI.pendH k hp hkr
          exact Or.inl ((hI.behind (hI.handR _ hh)).1 rt)

/-- right after a reconnect the nonce of every type is empty -/
theorem reconnect_resets_nonces (cfg : Cfg) (s s' : St) (hs : step cfg s .reconnectDrain = some s') :
    (∀ rt, s'.nonce rt = "") ∧ s'.queue = [] ∧ s'.version = s.version := by
  simp only [step] at hs
  split at hs <;> cases hs
  exact ⟨fun _ => rfl, rfl, rfl⟩

def isFault : Op → Bool
  | .authFail | .reconnectDrain | .publish | .senderAdopt _ _ | .senderSend _ => true
  | _ => false

/-- **cache kept**: stream failures and sender steps leave the cache, versions, interest and name table untouched -/
theorem cache_survives (cfg : Cfg) (s s' : St) (op : Op) (hf : isFault op = true) (hs : step cfg s op = some s') :
    s'.cache = s.cache ∧ s'.version = s.version ∧ s'.watched = s.watched ∧ s'.table = s.table ∧ s'.acc = s.acc := by
  cases op <;> simp only [isFault, Bool.false_eq_true] at hf <;> simp only [step] at hs
  · split at hs <;> cases hs; exact ⟨rfl, rfl, rfl, rfl, rfl⟩
  · split at hs <;> cases hs; exact ⟨rfl, rfl, rfl, rfl, rfl⟩
  · split at hs <;> cases hs; exact ⟨rfl, rfl, rfl, rfl, rfl⟩
  · split at hs
    · cases hs
    · split at hs
      · cases hs; exact ⟨rfl, rfl, rfl, rfl, rfl⟩
      · split at hs
        · cases hs
        · split at hs <;> cases hs <;> exact ⟨rfl, rfl, rfl, rfl, rfl⟩
  · split at hs
    · cases hs
    · split at hs
      · cases hs; exact ⟨rfl, rfl, rfl, rfl, rfl⟩
      · split at hs
        · cases hs; exact ⟨rfl, rfl, rfl, rfl, rfl⟩
        · split at hs <;> cases hs <;> exact ⟨rfl, rfl, rfl, rfl, rfl⟩

/-- **convergence goes on**: C01's refinement holds verbatim for histories with faults at any positions -/
theorem converges_with_faults (cfg : Cfg) (ops : List Op) (s : St) (h : run cfg init ops = some s) (rt : RType) (n : Name) :
    s.cache rt n = served cfg ops.reverse rt n := C01.served_eq_fold cfg ops s h rt n

/-- ... and fault operations are not part of the fold -/
theorem faults_not_in_fold (cfg : Cfg) (op : Op) (rest : List Op) (rt : RType) (n : Name) (hf : isFault op = true) :
    served cfg (op :: rest) rt n = served cfg rest rt n := by
  cases op <;> simp only [isFault, Bool.false_eq_true] at hf <;> rfl

/-- **stop is final**: once the client has been stopped, it stays stopped and nothing more reaches the wire -/
theorem stop_is_final (cfg : Cfg) (s s' : St) (op : Op) (hc : s.closed = true) (hs : step cfg s op = some s') :
    s'.closed = true ∧ s'.wire = s.wire := by
  cases op <;> simp only [step] at hs <;> (repeat' split at hs) <;>
    first
    | (cases hs; done)
    | (cases hs; exact ⟨hc, rfl⟩)
    | (cases hs; simp_all)
    | simp_all

/-- **lookups still return after the stop**: the subscription step of a lookup is never blocked, however
many lookups have missed before (with the regenerated fact that `sendRequest` gives up on a stopped client) -/
theorem lookup_returns_after_stop (cfg : Cfg) (s : St) (rt : RType) (n : Name)
    (hf : cfg.sendAborts = Generated.sendAborts) : ∃ s', step cfg s (.subscribe rt n) = some s' := by
  rw [facts_send_aborts] at hf
  simp only [step, hf, if_true]
  split <;> exact ⟨_, rfl⟩

/-- **which nonce a request echoes**: the recorded nonce of a type changes only when a response of that type is handled
(to that response's nonce, accepted or rejected) or when the stream is replaced (to the empty nonce) - no other operation,
in particular no subscription change and no eviction, touches it -/
theorem nonce_frame (cfg : Cfg) (s s' : St) (op : Op) (t : RType) (hs : step cfg s op = some s') :
    s'.nonce t = s.nonce t ∨ (∃ r now, op = .push r now ∧ r.rt = t ∧ s'.nonce t = r.nonce) ∨
    (op = .reconnectDrain ∧ s'.nonce t = "") := by
  cases op with
  | pushUnknown => simp only [step] at hs; split at hs <;> cases hs; exact Or.inl rfl
  | push r now =>
    simp only [step] at hs
    split at hs; · cases hs
    split at hs
    · cases hs; exact Or.inl rfl
    · split at hs; · cases hs
      split at hs; · cases hs
      by_cases ht : t = r.rt
      · refine Or.inr (Or.inl ⟨r, now, rfl, ht.symm, ?_⟩)
        split at hs
        · cases hs; simp [ack, ht]
        · split at hs
          · cases hs; simp [ack, ht]
          · cases hs; simp [applyUpdate, ack, ht]
      · left
        split at hs
        · cases hs; simp [ack, ht]
        · split at hs
          · cases hs; simp [ack, ht]
          · cases hs; simp [applyUpdate, ack, ht]
  | subscribe rt n =>
    simp only [step] at hs
    left
    split at hs
    · split at hs <;> cases hs; simp [watch]
    · cases hs; simp [watch]
  | touch rt n now => simp only [step] at hs; cases hs; exact Or.inl rfl
  | evict rt n now =>
    simp only [step] at hs
    left
    split at hs; · cases hs
    split at hs
    · split at hs; · cases hs
      split at hs <;> (cases hs; simp [watch])
    · cases hs
  | authFail => simp only [step] at hs; split at hs <;> cases hs; exact Or.inl rfl
  | reconnectDrain =>
    simp only [step] at hs
    split at hs; · cases hs
    cases hs; exact Or.inr (Or.inr ⟨rfl, rfl⟩)
  | publish =>
    simp only [step] at hs
    left
    split at hs <;> first | (cases hs; rfl) | cases hs
  | senderAdopt order upto =>
    simp only [step] at hs
    left
    split at hs; · cases hs
    split at hs; · cases hs; rfl
    split at hs; · cases hs
    split at hs <;> (cases hs; rfl)
  | senderSend fails =>
    simp only [step] at hs
    left
    split at hs; · cases hs
    split at hs; · cases hs; rfl
    split at hs; · cases hs; rfl
    split at hs <;> (cases hs; rfl)

/-- a subscription change (a lookup that misses, an eviction) enqueues a request that echoes the recorded nonce: with
`nonce_frame`, the nonce of the LATEST response of that type on the current stream - the one a control plane that follows
the protocol expects -/
theorem subscription_request_echoes_recorded_nonce (cfg : Cfg) (s s' : St) (rt : RType) (n : Name) (hq : s.closed = false)
    (hs : step cfg s (.subscribe rt n) = some s') :
    ∃ q, s'.queue = s.queue ++ [q] ∧ q.rt = rt ∧ q.nonce = s.nonce rt ∧ n ∈ q.names := by
  simp only [step, hq, Bool.false_eq_true, false_and, if_false] at hs
  cases hs
  refine ⟨_, rfl, rfl, rfl, ?_⟩
  simp only [mkReq]
  by_cases h : n ∈ (s.watched rt).getD []
  · simp [watch, h]
  · simp [watch, h]

/-- served values are unaffected by the stop: a cached resource keeps being served -/
theorem cached_served_after_stop (cfg : Cfg) (s s' : St) (hs : step cfg s .authFail = some s') : s'.cache = s.cache := by
  simp only [step] at hs
  split at hs <;> cases hs; rfl

/-! non-vacuity: ACK on stream 1, failure, reconnect, adoption with kept version and empty nonce, ACK on stream 2 -/
example : (run C01.exCfg init
    [.subscribe .cds "c1", .senderSend false,
     .push { rt := .cds, version := "7", nonce := "n1", slots := [.good "c1" "v"] } 0, .senderSend false,
     .reconnectDrain, .publish, .senderAdopt [.cds] 5,
     .push { rt := .cds, version := "8", nonce := "n2", slots := [.good "c1" "w"] } 0, .senderSend false]).map
    (fun s => s.wire.map (fun kq => (kq.1, kq.2.nonce, kq.2.version)))
    = some [(1, "", ""), (1, "n1", "7"), (2, "", "7"), (2, "n2", "8")] := by decide

/-! ## Nonces stay on their stream, at goroutine granularity (`Model/Flow.lean`)

`nonce_per_stream` holds for atomic operations. In the code the producers of requests (`Watch` from any number of
lookups and from the cleaner, `updateAndACK` from the receiver), the sender and the reconnecting receiver are different
goroutines; what keeps an old nonce off a new stream is that *reading the nonce and handing the request to the channel* is
one `c.mu` section, and *resetting the nonces and draining the channel* is another. The request-path model tags every
request with the epoch (stream generation) in which its producer took the lock. -/

theorem facts_flow : Generated.flow = Flow.expectedFacts := by decide

/-- **every request on the wire of stream `k` was built in the epoch of stream `k`** — any number of producers, any
interleaving with the sender (including a `Send` stalled across a reconnect) and with repeated stream failures -/
theorem nonce_per_stream_goroutines {α : Type} (ls : List (Flow.Lbl α)) (s : Flow.S α)
    (h : Flow.run Generated.seq.reqCap Flow.init ls = some s) :
    (∀ p ∈ s.sentEp, p.2 = s.streamEp p.1) ∧ s.sentEp.map (·.1) = s.sent.map (·.1) :=
  ⟨Flow.wire_epoch (Flow.reachable h), (Flow.reachable h).par⟩

/-- after a reconnect has reset the nonces nothing built before it is left in the channel -/
theorem nothing_stale_queued {α : Type} (ls : List (Flow.Lbl α)) (s : Flow.S α)
    (h : Flow.run Generated.seq.reqCap Flow.init ls = some s) : ∀ e ∈ s.queueEp, e = s.epoch :=
  Flow.queue_epoch (Flow.reachable h)

/-! non-vacuity: a request is in `Send` on stream 1 (stalled) when the stream fails; lookup 1 misses during the reconnect
(its request is drained), lookup 2 after it; the in-flight request dies with its stream; on stream 2 only the request of
the new epoch appears -/
example : (Flow.run 4 (Flow.init : Flow.S Nat)
    [.pStart 0 10, .pLock 0, .pEnq 0, .sTakeReq, .stall, .rFail, .pStart 1 11, .pLock 1, .pEnq 1, .rDrain, .rPublish,
     .pStart 2 12, .pLock 2, .pEnq 2, .resume, .sSendDone, .sTakeStream, .sAdopt [], .sTakeReq, .sSendDone]).map
    (fun s => (s.sent, s.sentEp, s.streamEp 2)) = some ([(2, 12)], [(2, 1)], 1) := by decide
example : (Flow.run 4 (Flow.init : Flow.S Nat)
    [.pStart 0 10, .pLock 0, .pEnq 0, .sTakeReq, .stall, .rFail, .pStart 1 11, .pLock 1, .pEnq 1, .rDrain, .rPublish,
     .pStart 2 12, .pLock 2, .pEnq 2, .resume, .sSendDone, .sTakeStream, .sAdopt [], .sTakeReq, .sSendDone]).map
    (fun s => (s.drained, s.dropped.map (·.1))) = some ([11], [10]) := by decide

end XdsVerif.Properties.C04
