import XdsVerif.Proofs.Reg
import XdsVerif.Proofs.Flow
import XdsVerif.Proofs.Conc
import XdsVerif.Proofs.Sys
import XdsVerif.Properties.C05
import XdsVerif.Properties.C01
import XdsVerif.Generated.Facts
/-!
# C07 — concurrent use is linearizable and deadlock-free; policy before data

What the model can carry: every atomic step of `Model/Conc.lean` is one critical section of the code, so
the cache behaves as one atomic register per name written by `deliver` / `evict`; a lookup's result is read
by one step that lies inside its interval. **Data-race freedom is a property of the Go memory model and is
not expressible in the model** (its steps are sequentially consistent); what is checked here is the locking
discipline (regenerated lock-nesting edges are acyclic; handlers run inside `m.mu` before the write);
the race detector run of the thorough tier is supporting evidence only.
-/
namespace XdsVerif.Properties.C07
open XdsVerif.Conc

abbrev V : Variant := Generated.getVariant

theorem facts_get : V = expectedVariant := C05.facts_get

theorem facts_get_body : Generated.getFingerprint = expectedGetFingerprint := C05.facts_get_body

/-- **linearization point**: a value is returned by a step of the lookup itself (so between its start and its
return) at which the cache holds exactly that value; hence no value that was never current, and none that was
already overwritten when the lookup started -/
theorem linearization_point (tn : Nat → Name) (s s' : S) (l : Lbl) (i : Nat) (v : Val)
    (hnd : ∀ r, s.pc i ≠ .done r) (hs : cstep V tn s l = some s') (hd : s'.pc i = .done (.val v)) :
    s.cache (tn i) = some v ∧ (l = .getStart i ∨ l = .getRegister i ∨ l = .getReread i) :=
  C05.value_was_served tn s s' l i v hnd hs hd

/-- the cache of a name changes only by an accepted update or an eviction: it is one atomic register -/
theorem register_semantics (tn : Nat → Name) (s s' : S) (l : Lbl) (n : Name)
    (hl : ∀ full items, l ≠ .deliver full items) (he : ∀ m, l ≠ .evict m) (hs : cstep V tn s l = some s') :
    s'.cache n = s.cache n := by
  rw [facts_get] at hs
  cases l with
  | deliver full items => exact absurd rfl (hl full items)
  | evict m => exact absurd rfl (he m)
  | getStart j =>
    simp only [cstep] at hs
    split at hs <;> try (cases hs; done)
    split at hs <;> cases hs <;> rfl
  | getRegister j =>
    simp only [cstep, expectedVariant, if_true] at hs
    split at hs <;> try (cases hs; done)
    split at hs
    · cases hs; rfl
    · split at hs <;> cases hs <;> rfl
  | getWake j =>
    simp only [cstep] at hs
    split at hs <;> try (cases hs; done)
    split at hs <;> cases hs; rfl
  | getDeadline j =>
    simp only [cstep] at hs
    split at hs <;> try (cases hs; done)
    cases hs; rfl
  | getReread j =>
    simp only [cstep] at hs
    split at hs <;> try (cases hs; done)
    split at hs <;> cases hs <;> rfl
  | getCleanup j =>
    simp only [cstep, expectedVariant] at hs
    split at hs <;> try (cases hs; done)
    cases hs
    simp only [setPc]
    split <;> rfl

/-- an error result has a witness: the deadline fired (cleanup step), or the resource was gone at the re-read -/
theorem error_has_witness (tn : Nat → Name) (s s' : S) (l : Lbl) (i : Nat)
    (hnd : ∀ r, s.pc i ≠ .done r) (hs : cstep V tn s l = some s') (hd : s'.pc i = .done .err) :
    (l = .getCleanup i ∧ ∃ nf, s.pc i = .timedOut nf) ∨ (l = .getReread i ∧ s.cache (tn i) = none) := by
  rw [facts_get] at hs
  cases l with
  | getCleanup j =>
    simp only [cstep, expectedVariant] at hs
    split at hs <;> try (cases hs; done)
    rename_i nf hp
    cases hs
    by_cases hji : i = j
    · subst hji; exact Or.inl ⟨rfl, nf, hp⟩
    · exfalso
      simp only [setPc, hji, if_false] at hd
      split at hd <;> exact hnd _ hd
  | getReread j =>
    simp only [cstep] at hs
    split at hs <;> try (cases hs; done)
    split at hs <;> cases hs
    · rename_i w hw
      exfalso
      simp only [setPc] at hd
      split at hd
      · cases hd
      · exact hnd _ hd
    · rename_i hc
      by_cases hji : i = j
      · subst hji; exact Or.inr ⟨rfl, hc⟩
      · exfalso; simp only [setPc, hji, if_false] at hd; exact hnd _ hd
  | getStart j =>
    exfalso
    simp only [cstep] at hs
    split at hs <;> try (cases hs; done)
    split at hs <;> cases hs <;>
    · simp only [setPc] at hd
      split at hd
      · cases hd
      · exact hnd _ hd
  | getRegister j =>
    exfalso
    simp only [cstep, expectedVariant, if_true] at hs
    split at hs <;> try (cases hs; done)
    split at hs
    · cases hs
      simp only [setPc] at hd
      split at hd
      · cases hd
      · exact hnd _ hd
    · split at hs <;> cases hs <;>
      · simp only [setPc, attachExisting, attachNew] at hd
        split at hd
        · cases hd
        · exact hnd _ hd
  | getWake j =>
    exfalso
    simp only [cstep] at hs
    split at hs <;> try (cases hs; done)
    split at hs <;> cases hs
    simp only [setPc] at hd
    split at hd
    · cases hd
    · exact hnd _ hd
  | getDeadline j =>
    exfalso
    simp only [cstep] at hs
    split at hs <;> try (cases hs; done)
    cases hs
    simp only [setPc] at hd
    split at hd
    · cases hd
    · exact hnd _ hd
  | deliver full items => exfalso; simp only [cstep] at hs; cases hs; exact hnd _ hd
  | evict n =>
    exfalso
    simp only [cstep] at hs
    split at hs <;> cases hs
    exact hnd _ hd


/-! ### atomicity of a response against the cleaner and other lookups (`Model/Sys.lean`)

A response handler runs three lock sections: acknowledge (`c.mu`), interest filter (`c.mu.RLock`), `UpdateResource`
(`m.mu`). When they run back to back the composed system is a history of the client state machine (`Sys.run_seq`),
for which a cached name is always subscribed. -/

/-- schedules whose handlers are not torn apart: whatever lookups, sender steps, evictions and reconnects are
interleaved *between* responses, the state is one the sequential state machine reaches, hence a cached name is
subscribed -/
theorem cached_is_subscribed_atomic (cfg : Seq.Cfg) (T : Seq.RType) (tn : Nat → Name) (ls : List Sys.Lbl)
    (s : Sys.St) (e : Sys.Emit) (ha : Sys.atomic ls = true) (h : Sys.run cfg V T tn Sys.init ls = some (s, e))
    (rt : Seq.RType) (n : Name) (v : Val) (hc : s.seq.cache rt n = some v) :
    ((s.seq.watched rt).getD []).contains n = true :=
  Seq.cached_is_subscribed cfg e.seq s.seq (Sys.run_seq cfg V T tn ls Sys.init s e rfl ha h).1 rt n v hc

def ghostCfg : Seq.Cfg :=
  { sendAborts := true, metaInitNow := true, ndsRequired := false, ns := "default".toList, dom := "cluster.local".toList }
def ghostR1 : Seq.Resp := { rt := .eds, version := "1", nonce := "a", slots := [.good "e1" "v1"] }
def ghostR2 : Seq.Resp := { rt := .eds, version := "2", nonce := "b", slots := [.good "e1" "v2"] }
def ghostR3 : Seq.Resp := { rt := .eds, version := "3", nonce := "c", slots := [.good "e1" "v3"] }
/-- a lookup fetches `e1`; 31 s later the cleaner's eviction of `e1` lands between the interest filter and
`UpdateResource` of the next response; a further response follows -/
def ghostSched : List Sys.Lbl :=
  [.getStart 0 0, .getRegister 0, .op (.senderSend false),
   .op (.push ghostR1 0), .getWake 0, .getReread 0 0, .op (.senderSend false),
   .recvAck ghostR2, .recvFilter, .op (.evict .eds "e1" 31), .recvApply 31,
   .op (.senderSend false), .op (.senderSend false), .op (.push ghostR3 40), .getStart 1 41]

/-- **S15 (genuine defect, recorded as a known finding): a torn handler is not atomic against the cleaner.**
When the eviction of a name lands between the interest filter and `UpdateResource`, the update re-creates the
entry the cleaner just removed and unsubscribed: the name is cached but no longer in the interest set (a state no
sequential order of the operations reaches, by `cached_is_subscribed_atomic`), every later response is filtered
for it (`v3` never arrives), and lookups are served the stale `v2` for as long as they keep the entry alive -/
theorem s15_ghost_entry :
    (Sys.run ghostCfg V .eds (fun _ => "e1") Sys.init ghostSched).map
      (fun (s, _) => (s.seq.cache .eds "e1", s.seq.watched .eds, s.conc.pc 1))
    = some (some "v2", some [], .done (.val "v2")) := by decide

/-- the same operations with the handler's sections back to back: evicted, unsubscribed, and the next lookup
has to fetch again -/
example :
    (Sys.run ghostCfg V .eds (fun _ => "e1") Sys.init
      [.getStart 0 0, .getRegister 0, .op (.senderSend false),
       .op (.push ghostR1 0), .getWake 0, .getReread 0 0, .op (.senderSend false),
       .op (.push ghostR2 31), .op (.evict .eds "e1" 62), .getStart 1 63]).map
      (fun (s, _) => (s.seq.cache .eds "e1", s.seq.watched .eds, s.conc.pc 1))
    = some (none, some [], .missed) := by decide

/-- **linearizability against the history** (composed system, any number of lookups, handlers not torn): the value a
lookup returns is what the *fold of the accepted responses of the history performed so far* serves for its name at the
step that returns it — a point between the lookup's start and its return. So a result is never a value that was never
current, and never one that had already been replaced or removed when the returning step ran. -/
theorem linearizable_against_history (cfg : Seq.Cfg) (T : Seq.RType) (tn : Nat → Name) (ls : List Sys.Lbl)
    (s s' : Sys.St) (e e' : Sys.Emit) (l : Sys.Lbl) (ha : Sys.atomic ls = true)
    (h : Sys.run cfg V T tn Sys.init ls = some (s, e))
    (i : Nat) (v : Val) (hnd : ∀ r, s.conc.pc i ≠ .done r)
    (hs : Sys.step cfg V T tn s l = some (s', e')) (hd : s'.conc.pc i = .done (.val v)) :
    Spec.Seq.served cfg e.seq.reverse T (tn i) = some v := by
  rw [← C01.served_eq_fold_concurrent cfg V T tn ls s e ha h T (tn i)]
  exact C05.value_is_served_content cfg T tn ls s s' e e' l h i v hnd hs hd

/-- ... and an error is explained too: the lookup's deadline fired, or the fold serves nothing for the name at the
re-read (the resource was removed again after the notification) -/
theorem error_against_history (cfg : Seq.Cfg) (T : Seq.RType) (tn : Nat → Name) (ls : List Sys.Lbl)
    (s s' : Sys.St) (e e' : Sys.Emit) (l : Sys.Lbl) (ha : Sys.atomic ls = true)
    (h : Sys.run cfg V T tn Sys.init ls = some (s, e))
    (i : Nat) (hnd : ∀ r, s.conc.pc i ≠ .done r)
    (hs : Sys.step cfg V T tn s l = some (s', e')) (hd : s'.conc.pc i = .done .err) :
    (∃ nf, s.conc.pc i = .timedOut nf) ∨ Spec.Seq.served cfg e.seq.reverse T (tn i) = none := by
  have hC := Sys.coupled_run cfg V T tn ls Sys.init s e (Sys.coupled_init T) h
  rcases Sys.step_conc_one cfg V T tn s s' l e' hs with ⟨_, hsame⟩ | ⟨l', _, hl'⟩
  · rw [hsame] at hd; exact absurd hd (hnd _)
  · rcases error_has_witness tn s.conc s'.conc l' i hnd hl' hd with ⟨_, nf, hnf⟩ | ⟨_, hnone⟩
    · exact Or.inl ⟨nf, hnf⟩
    · right
      rw [← C01.served_eq_fold_concurrent cfg V T tn ls s e ha h T (tn i), ← hC (tn i)]
      exact hnone

/-- **policy before data**: inside one locked region of `UpdateResource` the registered handlers run before the
cache write that makes the resource visible (regenerated statement order), so by the time a lookup exposes a
resource every handler has completed for the update that delivered it -/
theorem policy_before_data :
    Generated.seq.updateOrder = ["lock", "handlers", "write+notify", "prune", "meta"] ∧
    Generated.handlers.handlersFirst = true := by decide

theorem facts_registration : Generated.regShape = .atomic := by decide

/-- **policy before data, over all interleavings of updates and handler registrations** (`Model/Reg.lean`, any number
of handlers, at the granularity of the manager's lock sections): what a lookup can see, every registered handler has
completed for. The registration shape is the one re-read from the source. -/
theorem policy_before_data_interleaved (ops : List Reg.Op) (s : Reg.S) (h : Reg.run Generated.regShape Reg.init ops = some s) :
    Reg.PolicyBeforeData s := by
  rw [facts_registration] at h
  exact (Reg.policy_before_data_all ops s h).1

/-- a registration split into two lock sections (either way round) breaks it: closed schedules, kept as the reason why
`facts_registration` matters -/
theorem torn_registration_breaks_it :
    (Reg.run .replayThenAppend Reg.init [.update 1, .regBegin 7, .update 2, .regEnd 7]).map (fun s => (s.cache, s.applied 7)) = some (some 2, some 1) ∧
    (Reg.run .appendThenReplay Reg.init [.update 1, .regBegin 7, .update 2, .regEnd 7]).map (fun s => (s.cache, s.applied 7)) = some (some 2, some 1) := by
  decide

/-- does the lock graph admit a cycle? (executable check: a topological peel removes every node) -/
def acyclic (edges : List (String × String)) : Bool :=
  let nodes := (edges.flatMap (fun e => [e.1, e.2])).eraseDups
  let rec peel (fuel : Nat) (rem : List String) (es : List (String × String)) : Bool :=
    match fuel with
    | 0 => rem.isEmpty
    | fuel + 1 =>
      match rem.filter (fun n => !(es.any (fun e => e.2 = n))) with
      | [] => rem.isEmpty
      | srcs => peel fuel (rem.filter (fun n => !srcs.contains n)) (es.filter (fun e => !srcs.contains e.1))
  peel (nodes.length + 1) nodes edges

/-- **lock order**: the regenerated lock-nesting edges (which lock is taken while which is held, through the
intra-package call graph) have no cycle — `m.mu → c.mu → r.mu` — so no set of goroutines can wait for each
other's mutexes -/
theorem lock_order_acyclic : acyclic Generated.lockEdges = true := by decide


/-! ### from the lock order to the absence of mutex deadlocks (any number of goroutines) -/

/-- every nesting edge of the source goes up in the rank `m.mu < c.mu < r.mu` -/
def lockRank (l : String) : Nat := if l = "m.mu" then 0 else if l = "c.mu" then 1 else if l = "r.mu" then 2 else 3

theorem lock_edges_ranked : ∀ e ∈ Generated.lockEdges, lockRank e.1 < lockRank e.2 := by decide

/-- **a lock order excludes circular waits** (general lemma: any set of locks, any number of threads). `wants t`
is the mutex thread `t` is blocked on, `holds t l` says `t` holds `l`. If every blocked thread only waits for a
mutex ranked above everything it holds (the discipline the nesting edges express), then among any non-empty finite
set of blocked threads at least one waits for a mutex that no thread of the set holds: the set cannot be a deadlock -/
theorem ordered_locks_no_circular_wait {Thread Lock : Type} (rank : Lock → Nat)
    (wants : Thread → Option Lock) (holds : Thread → Lock → Prop)
    (disc : ∀ t l l', wants t = some l → holds t l' → rank l' < rank l)
    (D : List Thread) (hne : D ≠ []) (hblocked : ∀ t ∈ D, (wants t).isSome = true) :
    ∃ t ∈ D, ∃ l, wants t = some l ∧ ∀ t' ∈ D, ¬ holds t' l := by
  -- take a thread of D whose wanted mutex has maximal rank
  have hmax : ∃ t ∈ D, ∃ l, wants t = some l ∧ ∀ t' ∈ D, ∀ l', wants t' = some l' → rank l' ≤ rank l := by
    induction D with
    | nil => exact absurd rfl hne
    | cons a rest ih =>
      have ha : (wants a).isSome = true := hblocked a (by simp)
      obtain ⟨la, hla⟩ := Option.isSome_iff_exists.mp ha
      by_cases hr : rest = []
      · subst hr
        refine ⟨a, by simp, la, hla, ?_⟩
        intro t' ht' l' hl'
        simp only [List.mem_singleton] at ht'
        subst ht'; rw [hla] at hl'; cases hl'; exact Nat.le_refl _
      · obtain ⟨t, ht, l, hl, hm⟩ := ih hr (fun t ht => hblocked t (by simp [ht]))
        by_cases hcmp : rank l ≤ rank la
        · refine ⟨a, by simp, la, hla, ?_⟩
          intro t' ht' l' hl'
          simp only [List.mem_cons] at ht'
          rcases ht' with rfl | ht'
          · rw [hla] at hl'; cases hl'; exact Nat.le_refl _
          · exact Nat.le_trans (hm t' ht' l' hl') hcmp
        · refine ⟨t, by simp [ht], l, hl, ?_⟩
          intro t' ht' l' hl'
          simp only [List.mem_cons] at ht'
          rcases ht' with rfl | ht'
          · rw [hla] at hl'; cases hl'; omega
          · exact hm t' ht' l' hl'
  obtain ⟨t, ht, l, hl, hm⟩ := hmax
  refine ⟨t, ht, l, hl, ?_⟩
  intro t' ht' hh
  -- t' is blocked too, on a mutex ranked strictly above `l`, contradicting maximality
  obtain ⟨l', hl'⟩ := Option.isSome_iff_exists.mp (hblocked t' ht')
  have h1 := disc t' l' l hl' hh
  have h2 := hm t' ht' l' hl'
  omega

/-- non-vacuity: two goroutines in the two nestings the source has (a lookup holding `m.mu` waiting for `c.mu`; the
receiver holding `c.mu` waiting for `r.mu`) satisfy the discipline; the reverse nesting would not -/
example : ∀ t l l', (fun t : Bool => if t then some "c.mu" else some "r.mu") t = some l →
    (fun (t : Bool) (l : String) => if t then l = "m.mu" else l = "c.mu") t l' → lockRank l' < lockRank l := by
  intro t l l' h1 h2
  cases t <;> simp at h1 h2 <;> subst h1 <;> subst h2 <;> decide

/-- no reachable state of the interleaving model has a stuck lookup -/
theorem no_stuck_lookup (tn : Nat → Name) (ls : List Lbl) (s : S) (h : runL V tn init ls = some s) (i : Nat)
    (hnd : ∀ r, s.pc i ≠ .done r) : ∃ l s', cstep V tn s l = some s' :=
  let ⟨l, s', h1, _⟩ := C05.always_progress tn ls s h i hnd
  ⟨l, s', h1⟩

/-! non-vacuity -/
example : acyclic [("a", "b"), ("b", "a")] = false := by decide
example : acyclic [("m.mu", "c.mu"), ("c.mu", "r.mu")] = true := by decide

/-! ## Deadlock freedom of the request path (`Model/Flow.lean`), and S12

The lock-order argument above covers mutexes. The request channel is a fourth resource: a producer waits for room in it
**while holding `c.mu`**, and the only goroutine that makes room, the sender, takes `c.mu` when it adopts a new stream. -/

theorem facts_flow : Generated.flow = Flow.expectedFacts := by decide

/-- **full statement** (`no_deadlock`): in no reachable state is the client stuck with work under way. It is **false**
of the source as it is: `s12_deadlock_reachable`. **Proved part**: the S12 shape is the *only* way to be stuck — in every
reachable state in which the transport is not stalled, if no step of the program is enabled then the client is quiescent
or in the S12 shape (any number of producers, any capacity; here the capacity the source has) -/
theorem no_deadlock_partial {α : Type} (ls : List (Flow.Lbl α)) (s : Flow.S α)
    (h : Flow.run Generated.seq.reqCap Flow.init ls = some s) (hns : s.stalled = false)
    (hst : Flow.Stuck Generated.seq.reqCap s) : Flow.Quiescent s ∨ Flow.S12 Generated.seq.reqCap s :=
  Flow.stuck_cases (by decide) (Flow.reachable h).inv hns hst

/-- with fewer requests pending than the channel holds there is no deadlock at all -/
theorem no_deadlock_below_capacity {α : Type} (ls : List (Flow.Lbl α)) (s : Flow.S α)
    (h : Flow.run Generated.seq.reqCap Flow.init ls = some s) (hns : s.stalled = false)
    (hst : Flow.Stuck Generated.seq.reqCap s) (hroom : s.queue.length < Generated.seq.reqCap) : Flow.Quiescent s := by
  rcases no_deadlock_partial ls s h hns hst with hq | h12
  · exact hq
  · have := h12.2.1; omega

/-- **S12 (known finding)**: the S12 shape is reachable — a stream failure, a published but not yet adopted stream,
`reqCap` lookups that miss, one more that waits for room holding `c.mu`, and the sender's `select` taking the stream -/
theorem s12_deadlock_reachable :
    ∃ s : Flow.S Unit, Flow.run Generated.seq.reqCap Flow.init (Flow.s12Schedule Generated.seq.reqCap ()) = some s ∧
      Flow.S12 Generated.seq.reqCap s :=
  Flow.s12_reachable Generated.seq.reqCap ()

/-- … and it is for ever: nothing the program or its environment does (short of `close()` after an authentication
failure) leads out of it; the only step of the program still enabled is the receiver's pending hand-off -/
theorem s12_is_forever {α : Type} (s s' : Flow.S α) (l : Flow.Lbl α) (h12 : Flow.S12 Generated.seq.reqCap s)
    (hl : l ≠ .rAuthFail) (h : Flow.step Generated.seq.reqCap s l = some s') : Flow.S12 Generated.seq.reqCap s' :=
  Flow.s12_absorbing h12 hl h

theorem s12_only_handoff_runs {α : Type} (s : Flow.S α) (l : Flow.Lbl α) (h12 : Flow.S12 Generated.seq.reqCap s)
    (hi : l.internal = true) (hne : Flow.step Generated.seq.reqCap s l ≠ none) : l = .rPublish :=
  Flow.s12_only_publish h12 hi hne

/-- **no livelock, and no other deadlock**: from every reachable state, every execution of the program alone (no new
lookups, responses, failures) is finite — at most `work` steps, a measure of the requests, hand-offs and lock sections
still outstanding — and where it stops, unless the transport is stalled, the client is quiescent or in the S12 shape -/
theorem comes_to_rest_or_s12 {α : Type} (ls0 : List (Flow.Lbl α)) (s : Flow.S α)
    (h0 : Flow.run Generated.seq.reqCap Flow.init ls0 = some s) :
    ∃ n, ∀ (ls : List (Flow.Lbl α)) (s' : Flow.S α), (∀ l ∈ ls, l.internal = true) → Flow.run Generated.seq.reqCap s ls = some s' →
      ls.length ≤ Flow.work n s ∧ (s'.stalled = false → Flow.Stuck Generated.seq.reqCap s' → Flow.Quiescent s' ∨ Flow.S12 Generated.seq.reqCap s') := by
  obtain ⟨n, hn⟩ := Flow.supp_reachable Flow.supp_init h0
  exact ⟨n, fun ls s' hall h => Flow.comes_to_rest (by decide) (Flow.reachable h0) hn ls hall h⟩

/-! non-vacuity at capacity 2: the schedule of `s12_deadlock_reachable`, then nothing but the hand-off -/
example : (Flow.run 2 (Flow.init : Flow.S Unit) (Flow.s12Schedule 2 ())).map
    (fun s => (s.spc, s.cmu, s.queue.length, s.pc 2)) = some (.adoptWait 2, some (.prod 2), 2, .locked ()) := by decide

end XdsVerif.Properties.C07
