import XdsVerif.Proofs.Conc
import XdsVerif.Properties.C05
import XdsVerif.Properties.C01
import XdsVerif.Generated.Facts
/-!
# C07 — concurrent use is linearizable and deadlock-free; policy before data

What the model can carry: every atomic step of `Model/Conc.lean` is one critical section of the code, so
the cache behaves as one atomic register per name written by `deliver` / `evict`; a lookup's result is read
by one step that lies inside its interval. **Data-race freedom is a property of the Go memory model and is
not expressible in the model** (its steps are sequentially consistent); what is checked here is the locking
discipline (regenerated lock-nesting edges are acyclic; handlers run inside `m.mu` before the write);
the race detector run of the thorough tier is supporting evidence only.
-/
namespace XdsVerif.Properties.C07
open XdsVerif.Conc

abbrev V : Variant := Generated.getVariant

theorem facts_get : V = expectedVariant := C05.facts_get

/-- **linearization point**: a value is returned by a step of the lookup itself (so between its start and its
return) at which the cache holds exactly that value; hence no value that was never current, and none that was
already overwritten when the lookup started -/
theorem linearization_point (tn : Nat → Name) (s s' : S) (l : Lbl) (i : Nat) (v : Val)
    (hnd : ∀ r, s.pc i ≠ .done r) (hs : cstep V tn s l = some s') (hd : s'.pc i = .done (.val v)) :
    s.cache (tn i) = some v ∧ (l = .getStart i ∨ l = .getRegister i ∨ l = .getReread i) :=
  C05.value_was_served tn s s' l i v hnd hs hd

/-- the cache of a name changes only by an accepted update or an eviction: it is one atomic register -/
theorem register_semantics (tn : Nat → Name) (s s' : S) (l : Lbl) (n : Name)
    (hl : ∀ full items, l ≠ .deliver full items) (he : ∀ m, l ≠ .evict m) (hs : cstep V tn s l = some s') :
    s'.cache n = s.cache n := by
  rw [facts_get] at hs
  cases l with
  | deliver full items => exact absurd rfl (hl full items)
  | evict m => exact absurd rfl (he m)
  | getStart j =>
    simp only [cstep] at hs
    split at hs <;> try (cases hs; done)
    split at hs <;> cases hs <;> rfl
  | getRegister j =>
    simp only [cstep, expectedVariant, if_true] at hs
    split at hs <;> try (cases hs; done)
    split at hs
    · cases hs; rfl
    · split at hs <;> cases hs <;> rfl
  | getWake j =>
    simp only [cstep] at hs
    split at hs <;> try (cases hs; done)
    split at hs <;> cases hs; rfl
  | getDeadline j =>
    simp only [cstep] at hs
    split at hs <;> try (cases hs; done)
    cases hs; rfl
  | getReread j =>
    simp only [cstep] at hs
    split at hs <;> try (cases hs; done)
    split at hs <;> cases hs <;> rfl
  | getCleanup j =>
    simp only [cstep, expectedVariant] at hs
    split at hs <;> try (cases hs; done)
    cases hs
    simp only [setPc]
    split <;> rfl

/-- an error result has a witness: the deadline fired (cleanup step), or the resource was gone at the re-read -/
theorem error_has_witness (tn : Nat → Name) (s s' : S) (l : Lbl) (i : Nat)
    (hnd : ∀ r, s.pc i ≠ .done r) (hs : cstep V tn s l = some s') (hd : s'.pc i = .done .err) :
    (l = .getCleanup i ∧ ∃ nf, s.pc i = .timedOut nf) ∨ (l = .getReread i ∧ s.cache (tn i) = none) := by
  rw [facts_get] at hs
  cases l with
  | getCleanup j =>
    simp only [cstep, expectedVariant] at hs
    split at hs <;> try (cases hs; done)
    rename_i nf hp
    cases hs
    by_cases hji : i = j
    · subst hji; exact Or.inl ⟨rfl, nf, hp⟩
    · exfalso
      simp only [setPc, hji, if_false] at hd
      split at hd <;> exact hnd _ hd
  | getReread j =>
    simp only [cstep] at hs
    split at hs <;> try (cases hs; done)
    split at hs <;> cases hs
    · rename_i w hw
      exfalso
      simp only [setPc] at hd
      split at hd
      · cases hd
      · exact hnd _ hd
    · rename_i hc
      by_cases hji : i = j
      · subst hji; exact Or.inr ⟨rfl, hc⟩
      · exfalso; simp only [setPc, hji, if_false] at hd; exact hnd _ hd
  | getStart j =>
    exfalso
    simp only [cstep] at hs
    split at hs <;> try (cases hs; done)
    split at hs <;> cases hs <;>
    · simp only [setPc] at hd
      split at hd
      · cases hd
      · exact hnd _ hd
  | getRegister j =>
    exfalso
    simp only [cstep, expectedVariant, if_true] at hs
    split at hs <;> try (cases hs; done)
    split at hs
    · cases hs
      simp only [setPc] at hd
      split at hd
      · cases hd
      · exact hnd _ hd
    · split at hs <;> cases hs <;>
      · simp only [setPc, attachExisting, attachNew] at hd
        split at hd
        · cases hd
        · exact hnd _ hd
  | getWake j =>
    exfalso
    simp only [cstep] at hs
    split at hs <;> try (cases hs; done)
    split at hs <;> cases hs
    simp only [setPc] at hd
    split at hd
    · cases hd
    · exact hnd _ hd
  | getDeadline j =>
    exfalso
    simp only [cstep] at hs
    split at hs <;> try (cases hs; done)
    cases hs
    simp only [setPc] at hd
    split at hd
    · cases hd
    · exact hnd _ hd
  | deliver full items => exfalso; simp only [cstep] at hs; cases hs; exact hnd _ hd
  | evict n =>
    exfalso
    simp only [cstep] at hs
    split at hs <;> cases hs
    exact hnd _ hd

/-- **policy before data**: inside one locked region of `UpdateResource` the registered handlers run before the
cache write that makes the resource visible (regenerated statement order), so by the time a lookup exposes a
resource every handler has completed for the update that delivered it -/
theorem policy_before_data :
    Generated.seq.updateOrder = ["lock", "handlers", "write+notify", "prune", "meta"] ∧
    Generated.handlers.handlersFirst = true := by decide

/-- does the lock graph admit a cycle? (executable check: a topological peel removes every node) -/
def acyclic (edges : List (String × String)) : Bool :=
  let nodes := (edges.flatMap (fun e => [e.1, e.2])).eraseDups
  let rec peel (fuel : Nat) (rem : List String) (es : List (String × String)) : Bool :=
    match fuel with
    | 0 => rem.isEmpty
    | fuel + 1 =>
      match rem.filter (fun n => !(es.any (fun e => e.2 = n))) with
      | [] => rem.isEmpty
      | srcs => peel fuel (rem.filter (fun n => !srcs.contains n)) (es.filter (fun e => !srcs.contains e.1))
  peel (nodes.length + 1) nodes edges

/-- **lock order**: the regenerated lock-nesting edges (which lock is taken while which is held, through the
intra-package call graph) have no cycle — `m.mu → c.mu → r.mu` — so no set of goroutines can wait for each
other's mutexes -/
theorem lock_order_acyclic : acyclic Generated.lockEdges = true := by decide

/-- no reachable state of the interleaving model has a stuck lookup -/
theorem no_stuck_lookup (tn : Nat → Name) (ls : List Lbl) (s : S) (h : runL V tn init ls = some s) (i : Nat)
    (hnd : ∀ r, s.pc i ≠ .done r) : ∃ l s', cstep V tn s l = some s' :=
  let ⟨l, s', h1, _⟩ := C05.always_progress tn ls s h i hnd
  ⟨l, s', h1⟩

/-! non-vacuity -/
example : acyclic [("a", "b"), ("b", "a")] = false := by decide
example : acyclic [("m.mu", "c.mu"), ("c.mu", "r.mu")] = true := by decide

end XdsVerif.Properties.C07
