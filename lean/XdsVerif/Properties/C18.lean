import XdsVerif.Proofs.Reg
import XdsVerif.Model.Handlers
import XdsVerif.Generated.Facts
/-!
# C18 — the server rate limit tracks the inbound listener
For every sequence of accepted listener updates (`inbound` = the reserved listener's entry of the update
map, absent when the response does not contain it) and every configured service port.
When two filter chains carry the same destination port the later one wins (modelled, outside the
property's "the chain").
-/
namespace XdsVerif.Properties.C18
open XdsVerif.Handlers

/-- bridge: handlers run before the cache write, and registration replays the cached map of the type -/
theorem facts_handlers : Generated.handlers.handlersFirst = true ∧ Generated.handlers.replayOnRegister = true := by decide

def run (port : Nat) (s : LimitSt) (us : List (Option Chains)) : LimitSt := us.foldl (limitApply port) s

/-- **the QPS limit after any non-empty sequence of updates is the one the latest inbound listener gives** -/
theorem limit_latest (port : Nat) (s : LimitSt) (us : List (Option Chains)) (u : Option Chains) :
    (run port s (us ++ [u])).qps = some (limitOf port u) := by
  simp [run, List.foldl_append, limitApply]

/-- the chain for the configured port, else the chain without a port, else unlimited; zero means unlimited -/
theorem limit_rule (port : Nat) (cs : Chains) :
    limitOf port (some cs) =
      match tokensFor cs port with
      | some t => if t = 0 then none else some t
      | none => match tokensFor cs 0 with
        | some t => if t = 0 then none else some t
        | none => none := by
  unfold limitOf
  cases h1 : tokensFor cs port with
  | some t => simp [h1]
  | none => cases h2 : tokensFor cs 0 with
    | some t => simp [h1, h2]
    | none => simp [h1, h2]

/-- a missing inbound listener means unlimited -/
theorem missing_listener_unlimited (port : Nat) : limitOf port none = none := rfl

/-- with distinct chain ports, `tokensFor` is the tokens-per-fill of *the* chain with that port -/
theorem tokens_of_unique_chain (cs : Chains) (port t : Nat)
    (hm : (port, some t) ∈ cs) (hu : ∀ c ∈ cs, c.1 = port → c = (port, some t)) :
    tokensFor cs port = some t := by
  unfold tokensFor
  have hne : (cs.reverse.find? (fun c => decide (c.1 = port ∧ c.2.isSome = true))).isSome = true := by
    rw [List.find?_isSome]
    exact ⟨(port, some t), by simpa using hm, by simp⟩
  cases hf : cs.reverse.find? (fun c => decide (c.1 = port ∧ c.2.isSome = true)) with
  | none => rw [hf] at hne; cases hne
  | some c =>
    have hc := List.find?_some hf
    have hmem := List.mem_of_find?_eq_some hf
    simp only [decide_eq_true_eq] at hc
    have := hu c (by simpa using hmem) hc.1
    rw [this]; rfl

/-- every change is pushed to the running server's limiter: once an updater is installed each update appends exactly one push -/
theorem every_change_pushed (port : Nat) (s : LimitSt) (us : List (Option Chains)) (h : s.hasUpdater = true) :
    (run port s us).pushed = s.pushed ++ us.map (limitOf port) ∧ (run port s us).hasUpdater = true := by
  induction us generalizing s with
  | nil => simp [run, h]
  | cons u us ih =>
    have h' : (limitApply port s u).hasUpdater = true := by simp [limitApply, h]
    have := ih (limitApply port s u) h'
    simp only [run, List.foldl_cons] at this ⊢
    rw [this.1]
    exact ⟨by simp [limitApply, h], this.2⟩

/-- a limiter created after updates were received starts from the current state: registration replays the cached
listener map, and the running server receives that state when it installs its updater -/
theorem late_registration (port : Nat) (u : Option Chains) :
    (limitInstall (limitApply port limitInit u)).pushed = [limitOf port u] := by
  simp [limitInstall, limitApply, limitInit]

/-! ## Which filters of the inbound listener count (S17) -/

/-- bridge: `getLimiterPolicy` reads HTTP connection managers only -/
theorem facts_limiter : Generated.limiterScope = .httpOnly := by decide

/-- **Thrift-proxy filters do not limit**: whatever Thrift-proxy filters the inbound listener carries, wherever they sit,
the limit is the one the HTTP connection managers give -/
theorem thrift_filters_do_not_limit (port : Nat) (fs : List NFilter) :
    limitOf port (some (chainsOf Generated.limiterScope fs)) =
      limitOf port (some (chainsOf .httpOnly (fs.filter (fun f => f.kind = .http)))) := by
  rw [facts_limiter]
  unfold chainsOf
  simp [List.filter_filter]

/-- S17 (kept as documentation; repaired by `5ec9d07`): reading every filter that carries an inline route table, a
Thrift-proxy filter — which always carries one, without port and without bucket — masked the limit of the filter chain
without a port: the server ran unlimited -/
theorem s17_thrift_masks_limit :
    limitOf 9090 (some (chainsOf .all [⟨.http, 0, some 5⟩, ⟨.thrift, 0, some 0⟩])) = none ∧
    limitOf 9090 (some (chainsOf .httpOnly [⟨.http, 0, some 5⟩, ⟨.thrift, 0, some 0⟩])) = some 5 := by decide

/-! non-vacuity -/
example : limitOf 8080 (some [(0, some 5), (8080, some 100), (9090, none)]) = some 100 := by decide
example : limitOf 7070 (some [(0, some 5), (8080, some 100)]) = some 5 := by decide
example : limitOf 8080 (some [(8080, some 0)]) = none := by decide

/-! ## A handler created while updates arrive (`Model/Reg.lean`) -/

theorem facts_registration : Generated.regShape = .atomic := by decide

/-- **a rate limit handler created at any moment tracks the latest state**: over every interleaving of accepted updates and
registrations (any number of handlers — one per client suite), every registered handler has completed for exactly the
content the cache holds; in particular a handler registered between two updates has seen the second one -/
theorem created_anytime_tracks_latest (ops : List Reg.Op) (s : Reg.S) (h : Reg.run Generated.regShape Reg.init ops = some s)
    (k v : Nat) (hk : k ∈ s.handlers) (hv : s.cache = some v) : s.applied k = some v := by
  rw [facts_registration] at h
  obtain ⟨hP, hp⟩ := Reg.policy_before_data_all ops s h
  exact hP k hk (by simp [hp k]) v hv

example : (Reg.run Generated.regShape Reg.init [.update 1, .regBegin 7, .update 2, .regBegin 8]).map
    (fun s => (s.cache, s.handlers, s.applied 7, s.applied 8)) = some (some 2, [7, 8], some 2, some 2) := by decide

/-! ## Updates and the server's installation of its updater, in any order (added in the last session) -/

inductive LOp
  | upd (u : Option Chains)
  | install

def lstep (port : Nat) (s : LimitSt) : LOp → LimitSt
  | .upd u => limitApply port s u
  | .install => limitInstall s

/-- what the running server's limiter was told last is the limit in force -/
def Synced (s : LimitSt) : Prop := s.hasUpdater = true → s.pushed.getLast? = some (s.qps.getD (some 0))

theorem lstep_synced (port : Nat) (s : LimitSt) (o : LOp) (h : Synced s) : Synced (lstep port s o) := by
  cases o with
  | upd u =>
    intro hu
    have hu' : s.hasUpdater = true := by simpa [lstep, limitApply] using hu
    simp [lstep, limitApply, hu']
  | install =>
    intro _
    simp [lstep, limitInstall]

/-- **for every interleaving of listener updates and installations of the server's updater** (before the first update,
between two, after the last; more than once), as soon as the server has an updater the value it was given last is the limit
the latest inbound listener gives — the server is never left with a stale limit -/
theorem server_never_stale (port : Nat) (ops : List LOp) :
    Synced (ops.foldl (lstep port) limitInit) := by
  have : ∀ (s : LimitSt), Synced s → Synced (ops.foldl (lstep port) s) := by
    induction ops with
    | nil => intro s h; exact h
    | cons o os ih => intro s h; exact ih _ (lstep_synced port s o h)
  exact this limitInit (by intro h; cases h)

/-- and that limit is the latest update's: after `… upd u` followed by any number of installations the server holds `limitOf port u` -/
theorem server_holds_latest (port : Nat) (ops : List LOp) (u : Option Chains) (k : Nat) :
    let s := (List.replicate (k + 1) LOp.install).foldl (lstep port) ((ops ++ [LOp.upd u]).foldl (lstep port) limitInit)
    s.pushed.getLast? = some (limitOf port u) := by
  intro s
  have hq : ∀ (n : Nat) (t : LimitSt), ((List.replicate n LOp.install).foldl (lstep port) t).qps = t.qps := by
    intro n
    induction n with
    | zero => intro t; rfl
    | succ n ih => intro t; simp only [List.replicate_succ, List.foldl_cons]; rw [ih]; rfl
  have hu : ∀ (n : Nat) (t : LimitSt), ((List.replicate (n + 1) LOp.install).foldl (lstep port) t).hasUpdater = true := by
    intro n
    induction n with
    | zero => intro t; rfl
    | succ n ih => intro t; rw [List.replicate_succ, List.foldl_cons]; exact ih _
  have hsync : Synced s := by
    have := server_never_stale port ((ops ++ [LOp.upd u]) ++ List.replicate (k + 1) LOp.install)
    simpa [s, List.foldl_append] using this
  have h1 := hsync (hu k _)
  rw [h1]
  have : s.qps = some (limitOf port u) := by
    show ((List.replicate (k + 1) LOp.install).foldl (lstep port) _).qps = _
    rw [hq]
    simp [List.foldl_append, lstep, limitApply]
  rw [this]; rfl

example : ((([LOp.upd (some [(8080, some 5)]), .install, .upd (some [(8080, some 9)]), .install, .upd none] : List LOp).foldl
    (lstep 8080) limitInit).pushed) = [some 5, some 9, some 9, none] := by decide

end XdsVerif.Properties.C18
