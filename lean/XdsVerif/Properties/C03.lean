import XdsVerif.Proofs.Seq
import XdsVerif.Proofs.Interest
import XdsVerif.Properties.C01
/-!
# C03 — requests always carry exactly the current interest set of their type

Every operation of the state machine is one critical section of the code (`c.mu` / `m.mu`), so the
theorems below hold for every interleaving of lookups, evictions, responses, reconnects and sender
steps at that granularity; the atomicity of each section is the Go runtime's.
-/
namespace XdsVerif.Properties.C03
open XdsVerif.Seq XdsVerif.Spec.Seq

theorem facts_seq : Generated.seq = Seq.expectedFacts := C01.facts_seq

/-- a request built for a subscription change lists exactly the interest set *after* the change -/
theorem request_on_subscribe (cfg : Cfg) (s s' : St) (rt : RType) (n : Name) (hq : s.closed = false)
    (hs : step cfg s (.subscribe rt n) = some s') :
    ∃ q, s'.queue = s.queue ++ [q] ∧ q.rt = rt ∧ s'.watched rt = some q.names ∧ n ∈ q.names ∧ q.err = false := by
  simp only [step, hq, Bool.false_eq_true, false_and, if_false] at hs
  cases hs
  refine ⟨_, rfl, rfl, by simp [watch, mkReq], ?_, rfl⟩
  simp only [watch, mkReq, if_true, Option.getD_some, Bool.false_eq_true, if_false]
  split
  · rename_i h; simpa using h
  · simp

/-- requests built for acknowledgements list the interest set, too -/
theorem request_on_ack (cfg : Cfg) (s s' : St) (r : Resp) (now : Nat) (ws : List Name)
    (hw : s.watched r.rt = some ws) (hs : step cfg s (.push r now) = some s') :
    ∃ q, s'.queue = s.queue ++ [q] ∧ q.rt = r.rt ∧ s'.watched r.rt = some q.names := by
  simp only [step, hw] at hs
  split at hs; · cases hs
  split at hs; · cases hs
  split at hs; · cases hs
  have : ∀ s1 : St, s1.queue = (ack s r r.decodes s.recvStream).queue → s1.watched = s.watched →
      ∃ q, s1.queue = s.queue ++ [q] ∧ q.rt = r.rt ∧ s1.watched r.rt = some q.names := by
    intro s1 h1 h2
    exact ⟨_, by rw [h1]; rfl, rfl, by rw [h2, hw]; simp [mkReq, hw]⟩
  split at hs
  · cases hs; exact this _ rfl rfl
  · split at hs <;> cases hs <;> exact this _ rfl rfl

/-- **the interest set changes only by subscription (a lookup missed) and eviction**: every other operation leaves it alone -/
theorem interest_changes_only (cfg : Cfg) (s s' : St) (op : Op)
    (hop : ∀ rt n, op ≠ .subscribe rt n) (hop2 : ∀ rt n t, op ≠ .evict rt n t)
    (hs : step cfg s op = some s') : s'.watched = s.watched := by
  cases op with
  | subscribe rt n => exact absurd rfl (hop rt n)
  | evict rt n t => exact absurd rfl (hop2 rt n t)
  | push r now =>
    simp only [step] at hs
    split at hs; · cases hs
    split at hs
    · cases hs; rfl
    · split at hs; · cases hs
      split at hs; · cases hs
      split at hs
      · cases hs; rfl
      · split at hs <;> cases hs <;> rfl
  | _ =>
    simp only [step] at hs
    (repeat' split at hs) <;> first | (cases hs; done) | (cases hs; rfl)

/-- membership in the interest set after any history: the most recent subscribe / evict of that name decides -/
theorem interest_is_history (cfg : Cfg) (ops : List Op) (s : St) (h : run cfg init ops = some s) (rt : RType) (n : Name) :
    ((s.watched rt).getD []).contains n = subscribedAt ops.reverse rt n := by
  have := agree_run cfg ops init s [] (agree_init cfg) h
  simpa using this.watchedN rt n

/-- **on the live stream the last request of every watched type — sent or still queued — lists the interest set**
(unless a reconnect is in progress or the sender has lost its stream) -/
theorem last_request_tracks_interest (cfg : Cfg) (ops : List Op) (s : St) (h : run cfg init ops = some s)
    (hlive : ¬ Stale s) (rt : RType) (ws : List Name) (hw : s.watched rt = some ws) :
    lastNames rt (onStream s.recvStream s.wire ++ s.queue) = some ws := by
  have hI := cinv_run cfg ops init s cinv_init h
  rcases hI.li with st | lv
  · exact absurd st hlive
  · exact lv rt ws hw

/-- **quiescence**: with an empty request queue, the last request of each type on the live stream equals the interest set -/
theorem quiescent_last_request (cfg : Cfg) (ops : List Op) (s : St) (h : run cfg init ops = some s)
    (hlive : ¬ Stale s) (hq : s.queue = []) (rt : RType) (ws : List Name) (hw : s.watched rt = some ws) :
    lastNames rt (onStream s.recvStream s.wire) = some ws := by
  have := last_request_tracks_interest cfg ops s h hlive rt ws hw
  simpa [hq] using this

/-- what is queued is never out of date: the last queued request of a type lists the current interest set -/
theorem queue_never_stale (cfg : Cfg) (ops : List Op) (s : St) (h : run cfg init ops = some s) (hc : s.closed = false)
    (rt : RType) (ns : List Name) (hl : lastNames rt s.queue = some ns) : s.watched rt = some ns := by
  have hI := cinv_run cfg ops init s cinv_init h
  rcases hI.qi with qc | qi
  · rw [hc] at qc; cases qc
  · exact qi rt ns hl

/-! non-vacuity: three changes of one interest set, then quiescence -/
example : (run C01.exCfg init
    [.subscribe .cds "a", .subscribe .cds "b", .senderSend false, .senderSend false,
     .push { rt := .cds, version := "1", nonce := "x", slots := [.good "a" "1", .good "b" "2"] } 5, .senderSend false,
     .touch .cds "a" 5, .evict .cds "a" 40, .senderSend false]).map
    (fun s => (s.queue.length, lastNames .cds (onStream s.recvStream s.wire), s.watched .cds))
    = some (0, some ["b"], some ["b"]) := by decide

end XdsVerif.Properties.C03
