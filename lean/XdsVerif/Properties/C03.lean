import XdsVerif.Proofs.Flow
import XdsVerif.Proofs.Seq
import XdsVerif.Proofs.Interest
import XdsVerif.Properties.C01
import XdsVerif.Proofs.Sys
/-!
# C03 — requests always carry exactly the current interest set of their type

Every operation of the state machine is one critical section of the code (`c.mu` / `m.mu`), so the
theorems below hold for every interleaving of lookups, evictions, responses, reconnects and sender
steps at that granularity; the atomicity of each section is the Go runtime's.
-/
namespace XdsVerif.Properties.C03
open XdsVerif.Seq XdsVerif.Spec.Seq

theorem facts_seq : Generated.seq = Seq.expectedFacts := C01.facts_seq

/-- a request built for a subscription change lists exactly the interest set *after* the change -/
theorem request_on_subscribe (cfg : Cfg) (s s' : St) (rt : RType) (n : Name) (hq : s.closed = false)
    (hs : step cfg s (.subscribe rt n) = some s') :
    ∃ q, s'.queue = s.queue ++ [q] ∧ q.rt = rt ∧ s'.watched rt = some q.names ∧ n ∈ q.names ∧ q.err = false := by
  simp only [step, hq, Bool.false_eq_true, false_and, if_false] at hs
  cases hs
  refine ⟨_, rfl, rfl, by simp [watch, mkReq], ?_, rfl⟩
  simp only [watch, mkReq, if_true, Option.getD_some, Bool.false_eq_true, if_false]
  split
  · rename_i h; simpa using h
  · simp

/-- requests built for acknowledgements list the interest set, too -/
theorem request_on_ack (cfg : Cfg) (s s' : St) (r : Resp) (now : Nat) (ws : List Name)
    (hw : s.watched r.rt = some ws) (hs : step cfg s (.push r now) = some s') :
    ∃ q, s'.queue = s.queue ++ [q] ∧ q.rt = r.rt ∧ s'.watched r.rt = some q.names := by
  simp only [step, hw] at hs
  split at hs; · cases hs
  split at hs; · cases hs
  split at hs; · cases hs
  have : ∀ s1 : St, s1.queue = (ack s r r.decodes s.recvStream).queue → s1.watched = s.watched →
      ∃ q, s1.queue = s.queue ++ [q] ∧ q.rt = r.rt ∧ s1.watched r.rt = some q.names := by
    intro s1 h1 h2
    exact ⟨_, by rw [h1]; rfl, rfl, by rw [h2, hw]; simp [mkReq, hw]⟩
  split at hs
  · cases hs; exact this _ rfl rfl
  · split at hs <;> cases hs <;> exact this _ rfl rfl

/-- **the interest set changes only by subscription (a lookup missed) and eviction**: every other operation leaves it alone -/
theorem interest_changes_only (cfg : Cfg) (s s' : St) (op : Op)
    (hop : ∀ rt n, op ≠ .subscribe rt n) (hop2 : ∀ rt n t, op ≠ .evict rt n t)
    (hs : step cfg s op = some s') : s'.watched = s.watched := by
  cases op with
  | subscribe rt n => exact absurd rfl (hop rt n)
  | evict rt n t => exact absurd rfl (hop2 rt n t)
  | push r now =>
    simp only [step] at hs
    split at hs; · cases hs
    split at hs
    · cases hs; rfl
    · split at hs; · cases hs
      split at hs; · cases hs
      split at hs
      · cases hs; rfl
      · split at hs <;> cases hs <;> rfl
  | _ =>
    simp only [step] at hs
    (repeat' split at hs) <;> first | (cases hs; done) | (cases hs; rfl)

/-- membership in the interest set after any history: the most recent subscribe / evict of that name decides -/
theorem interest_is_history (cfg : Cfg) (ops : List Op) (s : St) (h : run cfg init ops = some s) (rt : RType) (n : Name) :
    ((s.watched rt).getD []).contains n = subscribedAt ops.reverse rt n := by
  have := agree_run cfg ops init s [] (agree_init cfg) h
  simpa using this.watchedN rt n

/-- **on the live stream the last request of every watched type — sent or still queued — lists the interest set**
(unless a reconnect is in progress or the sender has lost its stream) -/
theorem last_request_tracks_interest (cfg : Cfg) (ops : List Op) (s : St) (h : run cfg init ops = some s)
    (hlive : ¬ Stale s) (rt : RType) (ws : List Name) (hw : s.watched rt = some ws) :
    lastNames rt (onStream s.recvStream s.wire ++ s.queue) = some ws := by
  have hI := cinv_run cfg ops init s cinv_init h
  rcases hI.li with st | lv
  · exact absurd st hlive
  · exact lv rt ws hw

/-- **quiescence**: with an empty request queue, the last request of each type on the live stream equals the interest set -/
theorem quiescent_last_request (cfg : Cfg) (ops : List Op) (s : St) (h : run cfg init ops = some s)
    (hlive : ¬ Stale s) (hq : s.queue = []) (rt : RType) (ws : List Name) (hw : s.watched rt = some ws) :
    lastNames rt (onStream s.recvStream s.wire) = some ws := by
  have := last_request_tracks_interest cfg ops s h hlive rt ws hw
  simpa [hq] using this

/-- what is queued is never out of date: the last queued request of a type lists the current interest set -/
theorem queue_never_stale (cfg : Cfg) (ops : List Op) (s : St) (h : run cfg init ops = some s) (hc : s.closed = false)
    (rt : RType) (ns : List Name) (hl : lastNames rt s.queue = some ns) : s.watched rt = some ns := by
  have hI := cinv_run cfg ops init s cinv_init h
  rcases hI.qi with qc | qi
  · rw [hc] at qc; cases qc
  · exact qi rt ns hl

/-! ### with any number of concurrent lookups (`Model/Sys.lean`)

`Sys.run_seq`: a schedule of the composed system whose response handlers run their lock sections back to back is a
history of the state machine above, whatever the lookup threads do in between — each lookup's `Watch` call happens
inside its `m.mu` section and is one `subscribe` of that history. -/

/-- quiescence, concurrent form: lookups (hits, misses, repeated, concurrent for the same and for different names,
timing out or being answered), evictions, responses, reconnects in any interleaving -/
theorem quiescent_last_request_concurrent (cfg : Cfg) (V : Conc.Variant) (T : RType) (tn : Nat → Name)
    (ls : List Sys.Lbl) (s : Sys.St) (e : Sys.Emit) (ha : Sys.atomic ls = true)
    (h : Sys.run cfg V T tn Sys.init ls = some (s, e))
    (hlive : ¬ Stale s.seq) (hq : s.seq.queue = []) (rt : RType) (ws : List Name) (hw : s.seq.watched rt = some ws) :
    lastNames rt (onStream s.seq.recvStream s.seq.wire) = some ws :=
  quiescent_last_request cfg e.seq s.seq (Sys.run_seq cfg V T tn ls Sys.init s e rfl ha h).1 hlive hq rt ws hw

/-- the interest set under concurrency: the most recent subscribe (a lookup that created the notifier) or eviction
of the name decides, exactly as in the sequential history the schedule performed -/
theorem interest_is_history_concurrent (cfg : Cfg) (V : Conc.Variant) (T : RType) (tn : Nat → Name)
    (ls : List Sys.Lbl) (s : Sys.St) (e : Sys.Emit) (ha : Sys.atomic ls = true)
    (h : Sys.run cfg V T tn Sys.init ls = some (s, e)) (rt : RType) (n : Name) :
    ((s.seq.watched rt).getD []).contains n = subscribedAt e.seq.reverse rt n :=
  interest_is_history cfg e.seq s.seq (Sys.run_seq cfg V T tn ls Sys.init s e rfl ha h).1 rt n

/-- only the lookup that creates the notifier subscribes: a lookup that joins an existing notifier, is answered from
the cache, times out or is cancelled sends nothing -/
theorem only_notifier_creation_subscribes (cfg : Cfg) (V : Conc.Variant) (T : RType) (tn : Nat → Name)
    (s s' : Sys.St) (i : Nat) (e : Sys.Emit) (h : Sys.step cfg V T tn s (.getRegister i) = some (s', e)) :
    (e.seq = [] ∧ s'.seq = s.seq ∧ s'.conc.nextNf = s.conc.nextNf) ∨
    (e.seq = [.subscribe T (tn i)] ∧ s'.conc.nextNf ≠ s.conc.nextNf) := by
  simp only [Sys.step] at h
  split at h
  · cases h
  · split at h
    · rename_i hnf; cases h; exact Or.inl ⟨rfl, rfl, hnf⟩
    · rename_i hnf
      split at h
      · cases h; exact Or.inr ⟨rfl, hnf⟩
      · cases h

/-! non-vacuity: three changes of one interest set, then quiescence -/
example : (run C01.exCfg init
    [.subscribe .cds "a", .subscribe .cds "b", .senderSend false, .senderSend false,
     .push { rt := .cds, version := "1", nonce := "x", slots := [.good "a" "1", .good "b" "2"] } 5, .senderSend false,
     .touch .cds "a" 5, .evict .cds "a" 40, .senderSend false]).map
    (fun s => (s.queue.length, lastNames .cds (onStream s.recvStream s.wire), s.watched .cds))
    = some (0, some ["b"], some ["b"]) := by decide

/-! ## The request path at goroutine granularity (`Model/Flow.lean`): the bounded channel, the sender, the client lock

`Seq` treats the channel as unbounded. The theorems below are about the machine that has the capacity the source
has (`Generated.seq.reqCap`), producers that wait for room while holding `c.mu`, a sender whose `Send` can be stalled
for any length of time, and reconnects; requests are opaque there, so they speak about every request alike —
subscription changes, acknowledgements, eviction notices. -/

theorem facts_flow : Generated.flow = Flow.expectedFacts := by decide

/-- the capacity of the request channel as the source has it -/
abbrev cap : Nat := Generated.seq.reqCap

/-- **each change is followed by a request** (channel level): a request handed to `sendRequest` is, at any later moment,
still queued, on the wire, in `Send`, dropped because the sender had no usable stream (a reconnect re-subscribes), or
drained by a reconnect (which re-subscribes); it is never silently discarded because the channel was full -/
theorem request_never_discarded {α : Type} (ls : List (Flow.Lbl α)) (s : Flow.S α) (h : Flow.run cap Flow.init ls = some s) :
    ∀ r ∈ s.enq, r ∈ s.queue ∨ r ∈ s.sent.map (·.2) ∨ r ∈ Flow.inflight s ∨ r ∈ s.dropped.map (·.1) ∨ r ∈ s.drained :=
  Flow.no_request_lost (Flow.reachable h)

/-- requests reach the control plane in the order they were produced, none twice: the last request of a type on the wire
is the last one produced (which lists the current interest set, `last_request_tracks_interest`) -/
theorem wire_in_production_order {α : Type} (ls : List (Flow.Lbl α)) (s : Flow.S α) (h : Flow.run cap Flow.init ls = some s) :
    (s.sent.map (·.2)).Sublist s.enq :=
  Flow.wire_subsequence (Flow.reachable h)

/-- **on a stream that has not failed, at quiescence the control plane has received exactly the requests produced, in
order** — however full the channel was on the way and however long `Send` was stalled (the stalled burst of the harness) -/
theorem quiescent_wire_complete {α : Type} (ls : List (Flow.Lbl α)) (s : Flow.S α) (h : Flow.run cap Flow.init ls = some s)
    (hn : Flow.NoFailure s) (hq : s.queue = []) (hi : Flow.inflight s = []) : s.sent.map (·.2) = s.enq :=
  Flow.live_wire_eq_enq (Flow.reachable h) hn hq hi

/-- … hence the last request of any kind (of any type) the control plane has received is the last one produced: with
`last_request_tracks_interest` (the last request produced for a type lists its interest set) this is "once the client is
quiescent the last request of each type on the live stream lists exactly the interest set", end to end -/
theorem quiescent_last_on_wire_is_last_produced {α : Type} (ls : List (Flow.Lbl α)) (s : Flow.S α)
    (h : Flow.run cap Flow.init ls = some s) (hn : Flow.NoFailure s) (hq : s.queue = []) (hi : Flow.inflight s = [])
    (p : α → Bool) : ((s.sent.map (·.2)).filter p).getLast? = (s.enq.filter p).getLast? := by
  rw [quiescent_wire_complete ls s h hn hq hi]

/-- **the glue between the two layers**: requests enter the channel in the order in which their producers took the client
lock (`lockSeq`), and on a live stream at quiescence that is the order on the wire. The operations of `Seq` are exactly
those lock sections (`Watch`, `updateAndACK`: change the interest set / the version, build the request, hand it over — one
`c.mu` section each), so `last_request_tracks_interest` — the last request *produced* for a type lists its interest set —
speaks about the last request *received* -/
theorem wire_follows_lock_order {α : Type} (ls : List (Flow.Lbl α)) (s : Flow.S α) (h : Flow.run cap Flow.init ls = some s)
    (hn : Flow.NoFailure s) (hq : s.queue = []) (hi : Flow.inflight s = []) (hc : s.cmu = none) (hcl : s.closed = false) :
    s.sent.map (·.2) = s.lockSeq :=
  Flow.live_wire_eq_lock_order (Flow.reachable h) hn hq hi hc hcl

/-- … and at any moment, not only at quiescence: what is in the channel and on its way was locked in that order -/
theorem enqueue_order_is_lock_order {α : Type} (ls : List (Flow.Lbl α)) (s : Flow.S α) (h : Flow.run cap Flow.init ls = some s)
    (hcl : s.closed = false) : s.lockSeq = s.enq ++ Flow.pendingLocked s :=
  (Flow.reachable h).lock hcl

/-- the channel never holds more than its capacity; a failed `Send` only ever happens on a dead stream -/
theorem channel_bounded {α : Type} (ls : List (Flow.Lbl α)) (s : Flow.S α) (h : Flow.run cap Flow.init ls = some s) :
    s.queue.length ≤ cap ∧ ∀ r k, (r, some k) ∈ s.dropped → s.dead k = true :=
  ⟨(Flow.reachable h).inv.bound, (Flow.reachable h).hist.dropDead⟩

/-! non-vacuity: three lookups miss while `Send` is stalled, the connection resumes, everything reaches the wire in order -/
example : (Flow.run 2 (Flow.init : Flow.S Nat)
    [.pStart 0 10, .pLock 0, .pEnq 0, .sTakeReq, .stall, .pStart 1 11, .pLock 1, .pEnq 1, .pStart 2 12, .pLock 2, .pEnq 2,
     .pStart 3 13, .pLock 3, .resume, .sSendDone, .sTakeReq, .pEnq 3, .sSendDone, .sTakeReq, .sSendDone, .sTakeReq, .sSendDone]).map
    (fun s => (s.sent, s.enq, s.queue)) = some ([(1, 10), (1, 11), (1, 12), (1, 13)], [10, 11, 12, 13], []) := by decide
/-- while the channel is full the fourth producer cannot enqueue -/
example : (Flow.run 2 (Flow.init : Flow.S Nat)
    [.pStart 0 10, .pLock 0, .pEnq 0, .sTakeReq, .stall, .pStart 1 11, .pLock 1, .pEnq 1, .pStart 2 12, .pLock 2, .pEnq 2,
     .pStart 3 13, .pLock 3, .pEnq 3]).isNone = true := by decide

end XdsVerif.Properties.C03
