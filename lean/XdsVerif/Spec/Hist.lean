import XdsVerif.Spec.Seq
/-!
# Executable specifications of C01–C04 on observed histories of the implementation

`Obs` is what the harness saw after a step (client quiescent). Nothing here runs the model's `step`;
C01 uses the backward-scan functions of `Spec.Seq` on the list of operations that happened.
-/
namespace XdsVerif.Spec.Hist
open XdsVerif.Seq

structure OReq where
  sid : Nat
  rt : RType
  version : String
  nonce : String
  names : List String      -- sorted
  err : Bool
  deriving DecidableEq, Repr, Inhabited

structure Obs where
  reqs : List OReq
  cache : RType → List (String × String)
  interest : RType → Option (List String)     -- sorted
  ver : RType → String × String
  table : List (String × List String)
  closed : Bool
  streams : Nat
  get : Option String := none
  hang : Bool := false

def sortStr (l : List String) : List String := (l.toArray.qsort (· < ·)).toList

def lookupC (o : Obs) (rt : RType) (n : String) : Option String := ((o.cache rt).find? (fun e => e.1 = n)).map (·.2)

def sameState (a b : Obs) : Bool :=
  RType.all.all (fun rt => sortStr ((a.cache rt).map (fun e => e.1 ++ "=" ++ e.2)) == sortStr ((b.cache rt).map (fun e => e.1 ++ "=" ++ e.2))
    && a.interest rt == b.interest rt && (a.ver rt).1 == (b.ver rt).1) && a.table == b.table

/-- C01: the served cache is the fold of the accepted responses -/
def c01 (cfg : Cfg) (rops : List Op) (uni : RType → List String) (o : Obs) : Option String :=
  let bad := [RType.lds, .rds, .cds, .eds].flatMap (fun rt =>
    ((uni rt).filter (fun n => Spec.Seq.served cfg rops rt n != lookupC o rt n)).map (fun n => (rt, n)))
  match bad with
  | (rt, n) :: _ => some s!"C01.served_eq_fold: {repr rt}/{n}: fold of accepted responses gives {Spec.Seq.served cfg rops rt n}, served {lookupC o rt n}"
  | [] =>
    let extra := [RType.lds, .rds, .cds, .eds].flatMap (fun rt => ((o.cache rt).filter (fun e => !(uni rt).contains e.1)).map (fun e => (rt, e.1)))
    match extra with
    | (rt, n) :: _ => some s!"C01.never_unsolicited: {repr rt}/{n} is cached but was never part of the case"
    | [] => none

/-- C01 (lookup): a lookup succeeds exactly when the fold contains the name -/
def c01get (cfg : Cfg) (rops : List Op) (rt : RType) (n : String) (res : String) : Option String :=
  let want := match Spec.Seq.served cfg rops rt n with
    | some v => s!"val:{v}"
    | none => "err:timeout"
  if res = want then none else some s!"C01.lookup: {repr rt}/{n}: expected {want}, got {res}"

/-- C02 on one response step. `pre` = observation before, `o` = after. `sendOk` = requests reach the wire. -/
def c02 (pre o : Obs) (rt : Option RType) (version nonce : String) (decodes : Bool) (sendOk : Bool)
    (everSubscribed : Bool := true) : Option String :=
  match rt with
  | none => if o.reqs.isEmpty && sameState pre o then none else some "C02.unknown_ignored: a response of unknown type was acknowledged or applied"
  | some rt =>
    -- whether the type was ever subscribed is the history's knowledge (start-up, lookups), not the client's belief
    match (if everSubscribed then some ((pre.interest rt).getD []) else none) with
    | none => if o.reqs.isEmpty && sameState pre o then none else some "C02.unknown_ignored: a response of a never-subscribed type was acknowledged or applied"
    | some ws =>
      let stateOk : Option String :=
        if decodes then
          (if (o.ver rt).1 = version then none else some s!"C02.ack_exact: acknowledged version should be {version}, is {(o.ver rt).1}")
        else if sameState pre o then none
        else some "C02.nack_frame: a rejected response changed the cache, the name table, the interest set or the acknowledged version"
      match stateOk with
      | some m => some m
      | none =>
        if !sendOk then none else
        match o.reqs with
        | [q] =>
          if q.rt ≠ rt then some "C02.ack_exact: acknowledgement has the wrong type"
          else if q.nonce ≠ nonce then some s!"C02.ack_exact: nonce {q.nonce}, expected {nonce}"
          else if q.names ≠ ws then some s!"C02.ack_exact: names {q.names}, expected the interest set {ws}"
          else if decodes && (q.version ≠ version || q.err) then some s!"C02.ack_exact: ACK must carry version {version} and no error detail (got {q.version}, err={q.err})"
          else if !decodes && (q.version ≠ (pre.ver rt).1 || !q.err) then some s!"C02.ack_exact: NACK must carry the last accepted version {(pre.ver rt).1} and an error detail (got {q.version}, err={q.err})"
          else none
        | l => some s!"C02.ack_exact: expected exactly one request for the response, saw {l.length}"

/-- C02 while the connection is stalled: the acknowledgement of a response of type `rt` waited in the request queue
while lookups of another type filled it; after the connection resumed exactly one request of type `rt` reached the
control plane, it echoes the nonce, and it is an ACK (new version, no error detail) or a NACK (last accepted version,
error detail) as the response deserves; a rejected response left the type's cache and version alone -/
def c02stalled (pre o : Obs) (rt : RType) (version nonce : String) (decodes : Bool) : Option String :=
  let stateOk : Option String :=
    if decodes then
      (if (o.ver rt).1 = version then none else some s!"C02.ack_exact: acknowledged version should be {version}, is {(o.ver rt).1}")
    else if (o.ver rt).1 ≠ (pre.ver rt).1 then some "C02.nack_frame: a rejected response changed the acknowledged version"
    else if sortStr ((pre.cache rt).map (fun e => e.1 ++ "=" ++ e.2)) != sortStr ((o.cache rt).map (fun e => e.1 ++ "=" ++ e.2)) then
      some "C02.nack_frame: a rejected response changed the cache"
    else none
  match stateOk with
  | some m => some m
  | none =>
    match o.reqs.filter (fun q => q.rt = rt) with
    | [q] =>
      if q.nonce ≠ nonce then some s!"C02.ack_exact: nonce {q.nonce}, expected {nonce}"
      else if some q.names ≠ pre.interest rt then some s!"C02.ack_exact: names {q.names}, expected the interest set {pre.interest rt}"
      else if decodes && (q.version ≠ version || q.err) then some s!"C02.ack_exact: ACK must carry version {version} and no error detail (got {q.version}, err={q.err})"
      else if !decodes && (q.version ≠ (pre.ver rt).1 || !q.err) then some s!"C02.ack_exact: NACK must carry the last accepted version {(pre.ver rt).1} and an error detail (got {q.version}, err={q.err})"
      else none
    | l => some s!"C02.ack_exact: the response (nonce {nonce}) was accepted by the client while the connection was stalled, but {l.length} requests of its type reached the control plane after the connection resumed, expected exactly one: the acknowledgement waiting in the request queue was lost or duplicated"

/-- C03: every request lists the interest set of its type as it is after the step; identifies the node -/
def c03 (o : Obs) (nodeOk : Bool) : Option String :=
  if !nodeOk then some "C03: a request does not identify the node" else
  match o.reqs.filter (fun q => some q.names ≠ o.interest q.rt) with
  | q :: _ => some s!"C03.req_names_eq_interest: {repr q.rt} request lists {q.names}, interest set is {o.interest q.rt}"
  | [] => none

/-- C03 on a burst of misses while the connection was stalled: request number `i` of the type lists exactly the first
`i` missed names on top of what was subscribed before (the interest set current when it was built), and none is lost -/
def c03burst (pre o : Obs) (rt : RType) (names : List String) (nodeOk : Bool) : Option String :=
  if !nodeOk then some "C03: a request does not identify the node" else
  let base := (pre.interest rt).getD []
  let qs := o.reqs.filter (fun q => q.rt = rt)
  if qs.length ≠ names.length then
    some s!"C03.each_change_requested: {names.length} lookups missed distinct names, {qs.length} requests reached the control plane"
  else
    match (List.range qs.length).filter (fun i => (qs.getD i default).names ≠ sortStr (base ++ names.take (i + 1))) with
    | i :: _ => some s!"C03.req_names_eq_interest: request {i + 1} of the burst lists {(qs.getD i default).names.length} names, the interest set had {base.length + i + 1} when it was built"
    | [] => none

/-- C03 (quiescence): the last request of each watched type on the live stream equals the interest set -/
def c03quiescent (o : Obs) (lastOnLive : RType → Option (List String)) : Option String :=
  match RType.all.filter (fun rt => (o.interest rt).isSome && lastOnLive rt ≠ o.interest rt) with
  | rt :: _ => some s!"C03.quiescent_last_request: {repr rt}: last request on the live stream lists {lastOnLive rt}, interest set is {o.interest rt}"
  | [] => none

/-- C03: the interest set grows only by a missed lookup and shrinks only by eviction -/
def c03change (pre o : Obs) (missed : Option (RType × String)) (evicted : Option (RType × String) := none) : Option String :=
  match RType.all.filter (fun rt =>
      let a := (pre.interest rt).getD []
      let b := (o.interest rt).getD []
      let added := b.filter (fun n => !a.contains n)
      let removed := a.filter (fun n => !b.contains n)
      !((removed.isEmpty || (match evicted with | some (t, n) => t = rt && removed = [n] | none => false))
        && (added.isEmpty || (match missed with | some (t, n) => t = rt && added = [n] | none => false)))) with
  | rt :: _ => some s!"C03.interest_changes_only: interest set of {repr rt} changed from {pre.interest rt} to {o.interest rt}"
  | [] => none

/-- C04 on a reconnect step: resubscription on the new stream, cache kept -/
def c04reconnect (pre o : Obs) (newSid : Nat) : Option String :=
  if !sameState pre o then some "C04.cache_survives: a stream failure changed the cache, versions, interest or name table" else
  let watched := RType.all.filter (fun rt => (pre.interest rt).isSome)
  let onNew := o.reqs.filter (fun q => q.sid = newSid)
  if o.reqs.any (fun q => q.sid ≠ newSid) then some "C04: a request was sent on a dead stream after the reconnect" else
  match watched.filter (fun rt => (onNew.filter (fun q => q.rt = rt)).length ≠ 1) with
  | rt :: _ => some s!"C04.resubscribe_on_adopt: {repr rt}: expected exactly one request on the new stream, saw {(onNew.filter (fun q => q.rt = rt)).length}"
  | [] =>
    match onNew.filter (fun q => some q.names ≠ pre.interest q.rt || q.version ≠ (pre.ver q.rt).1 || q.nonce ≠ "" || q.err) with
    | q :: _ => some s!"C04.resubscribe_on_adopt: {repr q.rt}: names {q.names} version {q.version} nonce '{q.nonce}'; expected the full interest set {pre.interest q.rt}, version {(pre.ver q.rt).1}, empty nonce"
    | [] => if onNew.length = watched.length then none else some "C04.resubscribe_on_adopt: request of a type that is not watched"

/-- C04 on a stream failure racing lookups: on the new stream the first |watched| requests are the re-subscription (one
per watched type, every subscribed name, accepted version, empty nonce); whatever follows lists the interest set and
carries no nonce of the old stream; nothing is sent on the dead stream -/
def c04stalled (pre o : Obs) (newSid : Nat) : Option String :=
  if sortStr ((pre.cache .cds).map (fun e => e.1 ++ "=" ++ e.2)) != sortStr ((o.cache .cds).map (fun e => e.1 ++ "=" ++ e.2)) then
    some "C04.cache_survives: the stream failure changed the cache" else
  let watched := RType.all.filter (fun rt => (o.interest rt).isSome)
  let onNew := o.reqs.filter (fun q => q.sid = newSid)
  let batch := onNew.take watched.length
  let rest := onNew.drop watched.length
  match watched.filter (fun rt => (batch.filter (fun q => q.rt = rt)).length ≠ 1) with
  | rt :: _ => some s!"C04.resubscribe_on_adopt: {repr rt}: the first {watched.length} requests on the new stream are not one per watched type"
  | [] =>
    match batch.filter (fun q => some q.names ≠ o.interest q.rt || q.version ≠ (pre.ver q.rt).1 || q.nonce ≠ "" || q.err) with
    | q :: _ => some s!"C04.resubscribe_on_adopt: {repr q.rt}: names {q.names} version {q.version} nonce '{q.nonce}'; expected the full interest set {o.interest q.rt}, version {(pre.ver q.rt).1}, empty nonce"
    | [] =>
      match rest.filter (fun q => q.nonce ≠ "") with
      | q :: _ => some s!"C04.nonce_per_stream: request on the new stream {q.sid} carries nonce '{q.nonce}', which that stream never issued (it is a nonce of the dead stream)"
      | [] =>
        -- the queued requests were built while the lookups missed one after the other: each lists the interest set of
        -- its moment (a subset of the final one), and the last one lists all of it
        match rest.filter (fun q => !(q.names.all (fun n => ((o.interest q.rt).getD []).contains n))) with
        | q :: _ => some s!"C03.req_names_eq_interest: {repr q.rt} request after the reconnect lists {q.names}, not a subset of the interest set {o.interest q.rt}"
        | [] =>
          match rest.getLast? with
          | some q => if some q.names ≠ o.interest q.rt then
              some s!"C03.quiescent_last_request: the last {repr q.rt} request on the new stream lists {q.names}, interest set is {o.interest q.rt}" else none
          | none => none

/-- C04: no request carries a nonce that was not issued on its own stream -/
def c04nonces (o : Obs) (issued : List (Nat × String)) : Option String :=
  match o.reqs.filter (fun q => q.nonce ≠ "" && !issued.contains (q.sid, q.nonce)) with
  | q :: _ => some s!"C04.nonce_per_stream: request on stream {q.sid} carries nonce '{q.nonce}' that was not issued on that stream"
  | [] => none

/-- C04: after the stop nothing is sent and lookups return -/
def c04stopped (o : Obs) : Option String :=
  if o.hang then some "C04.lookup_returns_after_stop: the client hangs"
  else if !o.reqs.isEmpty then some "C04.stop_is_final: a request was sent after the client was stopped"
  else none

/-- C19 on a cleaner tick at time `now`: `idleSince` gives, for every entry cached before the tick, the time of
its last lookup (or of its caching when it was never looked up) -/
def c19tick (pre o : Obs) (idleSince : List (RType × String × Nat)) (now : Nat) : Option String :=
  let judge := idleSince.filterMap (fun (rt, n, t) =>
    let cachedBefore := (lookupC pre rt n).isSome
    let mustGo := now - t > 30 && !(rt = .lds && n = "virtualInbound")
    let gone := (lookupC o rt n).isNone
    let unsub := !((o.interest rt).getD []).contains n
    if !cachedBefore then
      -- cached once, removed by the control plane since (a complete update without it), still subscribed and idle:
      -- the sweep withdraws it like any other idle name
      if !((pre.interest rt).getD []).contains n || !mustGo then none
      else if !unsub then some s!"C19.sweep: {repr rt}/{n} (removed by the control plane, idle since {t}) is still in the interest set after the sweep at {now}"
      else if !(o.reqs.any (fun q => q.rt = rt && !q.names.contains n)) then some s!"C19.sweep: no request without {repr rt}/{n} was sent"
      else none
    else
    if mustGo && !gone then some s!"C19.sweep: {repr rt}/{n} idle since {t} was not removed by the sweep at {now}"
    else if mustGo && !unsub then some s!"C19.sweep: {repr rt}/{n} was removed but is still in the interest set"
    else if mustGo && !(o.reqs.any (fun q => q.rt = rt && !q.names.contains n)) then some s!"C19.sweep: no request without {repr rt}/{n} was sent"
    else if !mustGo && gone then some s!"C19.recent_kept/reserved_kept: {repr rt}/{n} (idle since {t}) was removed by the sweep at {now}"
    else if !mustGo && !unsub && false then none
    else none)
  match judge with
  | m :: _ => some m
  | [] =>
    -- nothing else may change
    match RType.all.filter (fun rt => (o.cache rt).any (fun e => (lookupC pre rt e.1) != some e.2)) with
    | rt :: _ => some s!"C19: the sweep changed a cached value of {repr rt}"
    | [] => none

/-- C19: an update that names an entry the sweep evicted and unsubscribed must not bring it back -/
def c19crossed (pre o : Obs) (evicted : List (RType × String)) : Option String :=
  match evicted.filter (fun (rt, n) => !((pre.interest rt).getD []).contains n && (lookupC pre rt n).isNone && (lookupC o rt n).isSome) with
  | (rt, n) :: _ => some s!"C19.eviction_stands: {repr rt}/{n} was evicted and unsubscribed by the sweep; an update that was already on its way put it back into the cache although nobody subscribes to it (it will never be updated again)"
  | [] => none

/-- C19: the lookup of an evicted name subscribes again (a request naming it follows) -/
def c19relookup (pre o : Obs) (rt : RType) (n : String) (sendOk : Bool) (lastNonce : Option String := none) : Option String :=
  if ((pre.interest rt).getD []).contains n then none
  else if sendOk && (match lastNonce, o.reqs.find? (fun q => q.rt = rt && q.names.contains n) with
      | some ln, some q => q.nonce != ln
      | _, _ => false) then
    some s!"C19.relookup_current: {repr rt}/{n} was evicted; the request that subscribes it again echoes the nonce '{((o.reqs.find? (fun q => q.rt = rt && q.names.contains n)).map (·.nonce)).getD ""}', but the latest response of that type on this stream carried '{lastNonce.getD ""}' (it was not acknowledged): a control plane that follows the protocol ignores a request with an outdated nonce, so the lookup cannot obtain the current value"
  else if !((o.interest rt).getD []).contains n then some s!"C19.relookup_subscribes: {repr rt}/{n} was evicted; the later lookup did not put it back into the interest set (it returned {o.get})"
  else if sendOk && !(o.reqs.any (fun q => q.rt = rt && q.names.contains n)) then some s!"C19.relookup_subscribes: {repr rt}/{n} was evicted; the later lookup sent no request naming it"
  else none

end XdsVerif.Spec.Hist
