/-!
# Executable specification of C10, stated over what the control plane listed (proto level)
-/
namespace XdsVerif.Spec.C10

structure Ep where
  host : String
  port : Nat
  weight : Nat

structure Cla where
  localities : List (List Ep)

structure Cl where
  name : String
  serviceName : String
  inline : Option Cla

def showAddr (e : Ep) : String :=
  if (e.host.splitOn ":").length > 1 then s!"[{e.host}]:{e.port}" else s!"{e.host}:{e.port}"

/-- expected outcome: `inl errorClass` or `inr [(addr, weight)]` -/
def expected (cluster : Option Cl) (named : String → Option Cla) : Sum String (List (String × Nat)) :=
  match cluster with
  | none => .inl "fetchCluster"
  | some c =>
    let inl := match c.inline with
      | some a => if a.localities.isEmpty then none else some a
      | none => none
    let chosen : Sum String Cla :=
      match inl with
      | some a => .inr a
      | none => match named (if c.serviceName = "" then c.name else c.serviceName) with
        | some a => .inr a
        | none => .inl "fetchEndpoints"
    match chosen with
    | .inl e => .inl e
    | .inr a =>
      let eps := a.localities.flatten.map (fun e => (showAddr e, e.weight))
      if eps.isEmpty then .inl "noEndpoints" else .inr eps

end XdsVerif.Spec.C10
