import XdsVerif.Model.Route
/-!
# Executable specification of C08 (written over candidate lists, not as the model's nested matches)

Uses only the *data types* of `Model.Route`; the decision procedure is re-stated declaratively:
a route is eligible when its path condition and every header condition hold; the answer is the
first eligible route of the first stage that has one.
-/
namespace XdsVerif.Spec.C08
open XdsVerif.Route

def condHolds (rx : String → String → Bool) (md : Meta) (kc : String × Matcher) : Bool :=
  match md.find? (fun e => e.1 = kc.1) with
  | none => false
  | some (_, v) =>
    match kc.2 with
    | .exact s => s = v
    | .pfx p => v.startsWith p
    | .regex r => rx r v

def eligible (rx : String → String → Bool) (md : Meta) (httpPath thriftMethod : String) (r : Route) : Bool :=
  match r.mtch with
  | .none => false
  | .http m => (if m.path = "" then m.pfx = "/" else m.path = httpPath) && m.headers.all (condHolds rx md)
  | .thrift m => (m.method = "" || m.method = thriftMethod) && m.tags.all (condHolds rx md)

def lastOf (p : Filter → Bool) (fs : List Filter) : Option Filter := (fs.filter p).getLast?

/-- expected outcome: `inl err` or `inr route` -/
def expected (rx : String → String → Bool) (lis : Option Listener) (named : String → Option RouteCfg)
    (grpc : Bool) (md : Meta) (inv : Invocation) : Sum String Route :=
  let path := "/" ++ (if inv.pkg = "" then inv.svc else inv.pkg ++ "." ++ inv.svc) ++ "/" ++ inv.method
  let ok := eligible rx md path inv.toMethod
  match lis with
  | none => .inl "listener"
  | some l =>
    let thriftRoutes : List Route :=
      if grpc then [] else
        match (lastOf (·.isThrift) l.filters).bind (·.inline) |>.bind (·.thrift) with
        | some rs => rs
        | none => []
    match thriftRoutes.filter ok with
    | r :: _ => .inr r
    | [] =>
      match lastOf (fun f => !f.isThrift) l.filters with
      | none => .inl "noHttpFilter"
      | some f =>
        let flat (c : Option RouteCfg) : List Route :=
          match c.bind (·.http) with
          | some vhs => (vhs.map (·.routes)).flatten
          | none => []
        match (flat f.inline).filter ok with
        | r :: _ => .inr r
        | [] =>
          match named f.routeConfigName with
          | none => .inl "routeTable"
          | some c =>
            match (flat (some c)).filter ok with
            | r :: _ => .inr r
            | [] => .inl "noMatch"

end XdsVerif.Spec.C08
