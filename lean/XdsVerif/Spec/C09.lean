/-!
# Executable specification of C09, evaluated on the implementation's observations

Independent of the model: cluster `i` is to be chosen with probability `w_i / Σw`.
`within` is the acceptance band for an observed count `c` out of `n` draws with probability
`w/tot`: `|c·tot − n·w| ≤ 12·sqrt(n·w·(tot−w)) + 40·tot` in integer arithmetic (Bernstein's
inequality puts the false-alarm probability of one comparison below 1e-25). For `w = 0` and
`w = tot` a separate exact test is applied (`c = 0`, `c = n`).
-/
namespace XdsVerif.Spec.C09

def within (c n w tot : Nat) : Bool :=
  let lhs : Int := (c * tot : Nat) - (n * w : Nat)
  let d : Int := lhs.natAbs - 40 * tot
  if d ≤ 0 then true else decide (d * d ≤ 144 * n * w * (tot - w))

/-- `ws` weights, `n` draws, `counts` per-cluster selections, `errs` routing errors, `panics` -/
def holds (ws : List Nat) (n : Nat) (counts : List Nat) (errs panics : Nat) : Option String :=
  let tot := ws.sum
  if panics ≠ 0 then some s!"pickCluster panicked {panics} times"
  else if tot ≥ 4294967296 then none   -- outside the property's domain (NoWrap): only "never panics" is judged
  else if counts.length ≠ ws.length then some "counts length"
  else match ws with
  | [] => if errs = n then none else some "no clusters must be a routing error"
  | [_] => if counts = [n] then none else some "a single listed cluster must always be chosen"
  | _ =>
    if tot = 0 then (if errs = n then none else some "zero total weight must be a routing error")
    else if errs ≠ 0 then some s!"{errs} routing errors with positive total weight"
    else
      let bad := (List.range ws.length).filter (fun i =>
        let w := ws.getD i 0
        let c := counts.getD i 0
        if w = 0 then c ≠ 0
        else if w = tot then c ≠ n
        -- a cluster that should have been picked at least 50 times on average and never was: the chance of that under
        -- the stated distribution is below e^-50 (the 12-sigma band alone is too wide to tell 0 from 100 expected)
        else if c = 0 && n * w ≥ 50 * tot then true
        else !(within c n w tot))
      match bad with
      | [] => none
      | i :: _ =>
        let w := ws.getD i 0
        let c := counts.getD i 0
        if w = 0 then some s!"cluster {i} has weight 0 but was picked {c}/{n} times"
        else if c = 0 then some s!"cluster {i} holds weight {w}/{tot} and was never picked in {n} calls (expected about {n * w / tot})"
        else some s!"cluster {i} weight {w}/{tot} picked {c}/{n} times: not proportional"

end XdsVerif.Spec.C09
