import XdsVerif.Model.Seq
/-!
# Declarative specification of the served cache: backward scans over the history

`rops` is the history **most recent operation first**. Nothing here runs the model's state machine:
each function looks back through the history for the most recent operation that decides the question.
Uses the model's *data types* (operations, responses) and the pure name-binding function of C14.
-/
namespace XdsVerif.Spec.Seq
open XdsVerif.Seq

/-- was `n` subscribed for `rt` after the history? the most recent subscribe / evict of `(rt,n)` decides -/
def subscribedAt : List Op → RType → Name → Bool
  | [], _, _ => false
  | .subscribe rt' n' :: rest, rt, n => if rt' = rt ∧ n' = n then true else subscribedAt rest rt n
  | .evict rt' n' _ :: rest, rt, n => if rt' = rt ∧ n' = n then false else subscribedAt rest rt n
  | _ :: rest, rt, n => subscribedAt rest rt n

/-- has the client ever watched the type? -/
def typeWatchedAt : List Op → RType → Bool
  | [], _ => false
  | .subscribe rt' _ :: rest, rt => rt' = rt || typeWatchedAt rest rt
  | .evict rt' _ _ :: rest, rt => rt' = rt || typeWatchedAt rest rt
  | _ :: rest, rt => typeWatchedAt rest rt

/-- a response is accepted when its type is watched and every resource decodes -/
def accepted (rest : List Op) (r : Resp) : Bool := typeWatchedAt rest r.rt && r.decodes

/-- the name table after the history: that of the most recent accepted name-table response -/
def tableAt : List Op → List (Name × List String)
  | [] => []
  | .push r _ :: rest => if r.rt = .nds ∧ accepted rest r then r.table.getD [] else tableAt rest
  | _ :: rest => tableAt rest

/-- the content an accepted response carries for the subscribed name `n` (listeners through the binding of C14
with the table current at that response) -/
def carried (cfg : Cfg) (rest : List Op) (r : Resp) (n : Name) : Option Val :=
  if subscribedAt rest r.rt n then
    if r.rt = .lds ∧ cfg.ndsRequired ∧ n ≠ reserved then
      match listenerNameOf cfg (tableAt rest) n with
      | some ln => resOf r.slots ln
      | none => none
    else resOf r.slots n
  else none

/-- **the fold of accepted responses**: the most recent decisive operation for `(rt, n)` -/
def served (cfg : Cfg) : List Op → RType → Name → Option Val
  | [], _, _ => none
  | .push r _ :: rest, rt, n =>
    if r.rt = rt ∧ rt ≠ .nds ∧ accepted rest r then
      match carried cfg rest r n with
      | some v => some v
      | none => if isFull rt then none else served cfg rest rt n
    else served cfg rest rt n
  | .evict rt' n' _ :: rest, rt, n => if rt' = rt ∧ n' = n then none else served cfg rest rt n
  | _ :: rest, rt, n => served cfg rest rt n

/-- acknowledged version: that of the most recent accepted response of the type -/
def versionAt : List Op → RType → String
  | [], _ => ""
  | .push r _ :: rest, rt => if r.rt = rt ∧ accepted rest r then r.version else versionAt rest rt
  | _ :: rest, rt => versionAt rest rt

end XdsVerif.Spec.Seq
