/-!
# Executable specifications of C16–C18 on observed handler states (no model code)
-/
namespace XdsVerif.Spec.Handlers

/-- a cluster of one update: name and outlier detection `(threshold, volume)` if present -/
abbrev CUpdate := List (String × Option (Nat × Nat))

/-- observed breaker entry: (enable, round(rate·100), minSample) -/
abbrev CbObs := List (String × Bool × Nat × Nat)

/-- C16: `ups` = the updates the breaker has seen, oldest first (for a late breaker: the state at creation first) -/
def c16 (ups : List CUpdate) (o : CbObs) : Option String :=
  match ups.reverse with
  | [] => if o.isEmpty then none else some "C16: breaker configured before any update"
  | latest :: earlier =>
    -- every cluster the updates name AND every cluster the breaker has an entry for (an enabled entry that no update seen
    -- by this breaker accounts for - e.g. a stale cache entry replayed to a late breaker - is a failure too)
    let names := (ups.flatMap (fun u => u.map (·.1)) ++ o.map (·.1)).eraseDups
    let bad := names.filterMap (fun c =>
      let got := (o.find? (fun e => e.1 = c)).map (·.2)
      let want : Option (Bool × Nat × Nat) :=
        match (latest.find? (fun e => e.1 = c)).bind (·.2) with
        | some (t, v) => if t ≠ 0 && v ≠ 0 then some (true, t, v) else some (false, 0, 0)
        | none => if earlier.any (fun u => ((u.find? (fun e => e.1 = c)).bind (·.2)).isSome) then some (false, 0, 0) else none
      match want, got with
      | some (true, t, v), some (true, t', v') => if t = t' && v = v' then none else some s!"C16.cb_latest: {c}: expected enabled {t}/100 min {v}, got {t'}/100 min {v'}"
      | some (true, t, v), _ => some s!"C16.cb_latest: {c}: expected enabled {t}/100 min {v}, got {got.isSome}"
      | some (false, _, _), some (false, _, _) => none
      | some (false, _, _), some (true, t', v') => some s!"C16.cb_latest: {c} must be disabled by the latest update, is enabled {t'}/100 min {v'}"
      | some (false, _, _), none => some s!"C16.cb_latest: {c} was configured earlier and must now be disabled, has no entry"
      | none, some (true, t', v') => some s!"C16.cb_latest: {c} is enabled {t'}/100 min {v'} although no update this breaker starts from / has seen configures it (the latest cluster state does not contain it)"
      | none, _ => none)
    bad.head?

structure RPol where
  maxRetry : Nat
  maxDurationMs : Nat
  errRate : String
  backoff : String       -- "none" | "fixed:<ms>" | "random:<min>:<max>"
  deriving DecidableEq, Repr

structure RRouteS where
  clusters : List String
  numRetries : Nat
  perTryMs : Nat
  errRate : String
  backoffMs : Option (Nat × Nat)
  methods : List String

def wantPol (r : RRouteS) : RPol :=
  { maxRetry := r.numRetries, maxDurationMs := r.numRetries * r.perTryMs, errRate := r.errRate
    backoff := match r.backoffMs with
      | none => "none"
      | some (b, m) => if m > b then s!"random:{b}:{m}" else s!"fixed:{b}" }

/-- C17: `tables` = the named route tables in force (merge by name of all accepted updates) -/
def c17 (tables : List (String × List RRouteS)) (o : List (String × RPol)) : Option String :=
  let want : List (String × RPol) := tables.flatMap (fun t => t.2.flatMap (fun r =>
    r.clusters.flatMap (fun c => (c, wantPol r) :: r.methods.map (fun m => (c ++ "|" ++ m, wantPol r)))))
  -- a key named by several routes (two match rules, a traffic split) with different numbers: the property does not say
  -- which of them counts, so the installed policy has to be the one derived from SOME route that names the key
  let cands (k : String) : List RPol := (want.filter (fun w => w.1 = k)).map (·.2)
  match want.filter (fun w => match (o.find? (fun e => e.1 = w.1)).map (·.2) with
      | some p => !(cands w.1).contains p
      | none => true) with
  | w :: _ =>
    let sh (p : RPol) : String := s!"retry={p.maxRetry} dur={p.maxDurationMs} rate={p.errRate} backoff={p.backoff}"
    some s!"C17.retry_tracks_cache: policy for {w.1}: expected {(cands w.1).map sh}, installed {((o.find? (fun e => e.1 = w.1)).map (fun e => sh e.2))}"
  | [] =>
    match o.filter (fun e => !(want.any (fun w => w.1 = e.1))) with
    | e :: _ => some s!"C17.unreferenced_removed: policy for {e.1} is installed but no cached table references it"
    | [] => none

/-- C18: expected QPS limit (`none` = unlimited) from the inbound listener's chains `(port, tokensPerFill?)` -/
def wantLimit (port : Nat) (inbound : Option (List (Nat × Option Nat))) : Option Nat :=
  match inbound with
  | none => none
  | some cs =>
    let pick (p : Nat) : Option Nat := ((cs.filter (fun c => c.1 = p && c.2.isSome)).getLast?).bind (·.2)
    let t := match pick port with
      | some t => t
      | none => (pick 0).getD 0
    if t = 0 then none else some t

end XdsVerif.Spec.Handlers
