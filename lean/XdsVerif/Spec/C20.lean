/-!
# Executable specification of C20 on the implementation's observations (does not call the model)
Metadata values: `(key, some s)` a string value, `(key, none)` any other JSON value.
-/
namespace XdsVerif.Spec.C20

abbrev MetaObj := List (String × Option String × String)   -- key, string value?, raw text for non-strings

def find (o : MetaObj) (k : String) : Option (Option String × String) := (o.find? (fun e => e.1 = k)).map (·.2)

structure Env where
  ns : Option String
  name : Option String
  ip : Option String
  version : String
  domain : String
  metas : String

/-- `none` = holds; `some msg` = violated -/
def boot (e : Env) (parsed : Option MetaObj) (err : Bool) (nodeId ns dom : String) (md : MetaObj) : Option String :=
  let missing := e.ns.getD "" = "" || e.name.getD "" = "" || e.ip.getD "" = ""
  if missing then (if err then none else some "init_errors: a required variable is missing but a configuration was produced")
  else if err then some "init_errors: all required variables present but initialisation failed"
  else
    let pns := e.ns.getD ""; let pname := e.name.getD ""; let ip := e.ip.getD ""
    let d := if e.domain = "" then "cluster.local" else e.domain
    if nodeId ≠ s!"sidecar~{ip}~{pname}.{pns}~{pns}.svc.{d}" then some s!"node_id_format: got {nodeId}"
    else if dom ≠ d then some s!"domain: got {dom}"
    else
      let supplied : Option MetaObj := if e.metas = "" then none else parsed
      match supplied with
      | none =>
        if md = [("ISTIO_VERSION", some e.version, "")] then
          (if ns = pns then none else some s!"namespace: got {ns}")
        else some "meta_default: expected exactly ISTIO_VERSION"
      | some o =>
        -- user-supplied keys carried over unchanged (INSTANCE_IPS apart), nothing added
        let keysOk := md.map (·.1) = o.map (·.1)
        let passOk := o.all (fun kv => kv.1 = "INSTANCE_IPS" || find md kv.1 = some kv.2)
        let ipsOk : Option String :=
          match find o "INSTANCE_IPS" with
          | none => none
          | some (sv, _) =>
            match find md "INSTANCE_IPS" with
            | some (some got, _) =>
              let given := sv.getD ""
              if !(got.splitOn ",").contains ip then some s!"instance_ips_member: pod IP {ip} is not an element of INSTANCE_IPS={got} (supplied {given})"
              else if given = "" then (if got = ip then none else some s!"instance_ips: empty list must become the pod IP, got {got}")
              else if got = given || got = given ++ "," ++ ip then none
              else some s!"instance_ips: supplied {given}, got {got}"
            | _ => some "instance_ips: result is not a string"
        let wantNs := match find md "NAMESPACE" with
          | some (some v, _) => if v ≠ "" then v else pns
          | _ => pns
        if !keysOk then some "meta_passthrough: key set changed"
        else if !passOk then some "meta_passthrough: a user-supplied value changed"
        else match ipsOk with
          | some m => some m
          | none => if ns = wantNs then none else some s!"namespace_override: expected {wantNs}, got {ns}"

end XdsVerif.Spec.C20
