/-!
# Executable specification of C15 on observed call states (independent of the model's code)
`route` is the outcome the call *should* get (from C08/C09: the deterministic cluster and its timeout,
or `none` when routing must fail).
-/
namespace XdsVerif.Spec.C15

structure Obs where
  tag : Option String
  locked : Bool
  timeoutMs : Nat
  next : Nat
  err : String
  panicked : Bool

/-- the routing middleware -/
def middleware (pretag : Option String) (route : Option (String × Nat)) (o : Obs) : Option String :=
  if o.panicked then some "no_panic: the routing step panicked"
  else match pretag with
  | some t =>
    if o.tag = some t && o.next = 1 && o.err = "" && o.timeoutMs = 0 then none
    else some "mw_idempotent_when_tagged: an already decided destination must be left alone and the call passed on once"
  | none =>
    match route with
    | some (c, t) =>
      if o.tag ≠ some c then some s!"mw_decides_once: destination should be {c}"
      else if !o.locked then some "mw_decides_once: destination not locked"
      else if o.timeoutMs ≠ t then some s!"mw_decides_once: timeout should be {t}, is {o.timeoutMs}"
      else if o.next ≠ 1 || o.err ≠ "" then some "mw_decides_once: call must be passed on exactly once"
      else none
    | none =>
      if o.err ≠ "route" then some s!"mw_fail_closed: expected a routing error, got '{o.err}'"
      else if o.next ≠ 0 then some "mw_fail_closed: call was passed on"
      else if o.tag.isSome then some "mw_fail_closed: destination was set"
      else none

/-- the retry-key computation: same routing decision; never panics -/
def retryKey (pretag : Option String) (route : Option (String × Nat)) (o : Obs) : Option String :=
  if o.panicked then some "no_panic: the retry-key computation panicked"
  else match pretag with
  | some t => if o.tag = some t then none else some "retry key: decided destination changed"
  | none =>
    match route with
    | some (c, t) =>
      if o.tag = some c && o.locked && o.timeoutMs = t then none
      else some s!"retry_key_same_routing: expected destination {c} locked with timeout {t}"
    | none => if o.tag.isNone then none else some "retry key: destination set although routing failed"

end XdsVerif.Spec.C15
