/-!
# Executable specification of C14 (independent of the model: written with `String` library
functions, not with the model's `List Char` recursion)
-/
namespace XdsVerif.Spec.C14

def contains (s sub : String) : Bool := (s.splitOn sub).length > 1

/-- expansion to the fully qualified service name -/
def expand (ns dom h : String) : String :=
  if contains h ".svc." then h
  else
    let labels := h.splitOn "."
    match labels.length with
    | 1 => h ++ "." ++ ns ++ ".svc." ++ dom
    | 2 => h ++ ".svc." ++ dom
    | 3 => if labels[2]? = some "svc" then h ++ "." ++ dom else h
    | _ => h ++ "." ++ ns ++ ".svc." ++ dom

def firstAddr (tbl : List (String × List String)) (k : String) : Option String :=
  match tbl.find? (fun e => e.1 = k) with
  | some (_, ip :: _) => some ip
  | _ => none

/-- the address the name table designates for a host: the expanded name first, then the literal host; case-insensitive -/
def designated (ns dom : String) (tbl : List (String × List String)) (host : String) : Option String :=
  let h := host.toLower
  match firstAddr tbl (expand ns dom h) with
  | some ip => some ip
  | none => firstAddr tbl h

/-- the listener a lookup name `host[:port]` is bound to; `none` = not bound -/
def listenerFor (ns dom : String) (tbl : List (String × List String)) (name : String) : Option String :=
  match name.splitOn ":" with
  | [h] => (designated ns dom tbl h).bind (fun ip => if ip = "" then none else some (ip ++ "_80"))
  | [h, p] => (designated ns dom tbl h).bind (fun ip => if ip = "" then none else some (ip ++ "_" ++ p))
  | _ => none

end XdsVerif.Spec.C14
