import XdsVerif.Model.Seq
import XdsVerif.Model.Conc
/-!
# The whole client + manager with concurrent lookups (`Sys` = `Seq` × `Conc`, receiver at section granularity)

`Seq` treats a response as one atomic operation and a lookup as `touch`/`subscribe`; `Conc` treats the
manager as a cache written by anonymous `deliver`s. This layer composes them the way the code does:

* the lookup threads of `Conc` (all of resource type `T`, arbitrary `T`, unboundedly many) act on the
  **same** cache as the client: `getStart`/`getReread` are `getFromCache` (they refresh the last-access
  time: `Seq.touch`), a `getRegister` that creates a notifier calls `Watch` (`Seq.subscribe`) inside the
  same `m.mu` section;
* the receiver processes a response in the **three lock sections** the handlers really have
  (`handleLDS/RDS/CDS/EDS`): `recvAck` = decode + `updateAndACK` (under `c.mu`), `recvFilter` = the
  interest filter (under `c.mu.RLock`), `recvApply` = `UpdateResource` (under `m.mu`), which writes the
  cache *and* closes the notifiers of the delivered names. Everything else (`Watch` from a lookup or from
  the cleaner, lookups, the sender) may run between the sections. `op (.push r now)` is the three sections
  back to back — the atomic push of `Seq`.

`step` also returns what the step *is* in each component layer (`Seq` operations / `Conc` labels), so the
projection theorems of `Proofs/Sys.lean` are statements about the lists collected along a run.
-/
namespace XdsVerif.Sys
open XdsVerif

abbrev Name := String
abbrev Val := String

/-- a response between two receiver sections -/
structure Inflight where
  r : Seq.Resp
  /-- `none`: acknowledged, not yet filtered; `some items`: the filtered update map handed to `UpdateResource` -/
  items : Option (List (Name × Val))
  deriving Repr, Inhabited

structure St where
  seq : Seq.St
  conc : Conc.S
  inflight : Option Inflight

def init : St := { seq := Seq.init, conc := Conc.init, inflight := none }

inductive Lbl
  | getStart (i : Nat) (now : Nat)
  | getRegister (i : Nat)
  | getWake (i : Nat)
  | getDeadline (i : Nat)
  | getReread (i : Nat) (now : Nat)
  | getCleanup (i : Nat)
  /-- any operation of the client / manager as in `Seq` (a `push` here is the three receiver sections back to back) -/
  | op (o : Seq.Op)
  | recvAck (r : Seq.Resp)
  | recvFilter
  | recvApply (now : Nat)
  deriving Repr, Inhabited

/-- what a step is in the component layers -/
structure Emit where
  seq : List Seq.Op := []
  conc : List Conc.Lbl := []
  deriving Repr, Inhabited

/-- the filtered update map as an association list over the interest set -/
def itemsOf (cfg : Seq.Cfg) (s : Seq.St) (r : Seq.Resp) : List (Name × Val) :=
  ((s.watched r.rt).getD []).filterMap (fun n => (Seq.filtered cfg s r n).map (fun v => (n, v)))

/-- is the receiver goroutine free to start a new receive / reconnect step? -/
def receiverOp : Seq.Op → Bool
  | .push _ _ | .pushUnknown | .authFail | .reconnectDrain | .publish => true
  | _ => false

/-- section 1: decode, `updateAndACK`; the name table is stored at once; an undecodable or never-watched
response ends here -/
def doAck (s : St) (r : Seq.Resp) : Option St :=
  if s.inflight.isSome then none
  else if s.seq.handoff.isSome || s.seq.closed then none
  else match s.seq.watched r.rt with
    | none => some s
    | some _ =>
      if r.nonce = "" then none
      else if ¬ (s.seq.wire.any (fun kq => kq.1 = s.seq.recvStream ∧ kq.2.rt = r.rt)) then none
      else if r.decodes = false then some { s with seq := Seq.ack s.seq r false s.seq.recvStream }
      else if r.rt = .nds then
        some { s with seq := { (Seq.ack s.seq r true s.seq.recvStream) with table := r.table.getD [] } }
      else some { s with seq := Seq.ack s.seq r true s.seq.recvStream, inflight := some { r := r, items := none } }

/-- section 2: the interest filter, evaluated on the interest set and name table of *this* moment -/
def doFilter (cfg : Seq.Cfg) (s : St) : Option St :=
  match s.inflight with
  | some { r := r, items := none } => some { s with inflight := some { r := r, items := some (itemsOf cfg s.seq r) } }
  | _ => none

/-- section 3: `UpdateResource` with the map computed in section 2 -/
def doApply (cfg : Seq.Cfg) (V : Conc.Variant) (T : Seq.RType) (tn : Nat → Name) (s : St) (now : Nat) : Option (St × List Conc.Lbl) :=
  match s.inflight with
  | some { r := r, items := some items } =>
    let q' := Seq.applyUpdate s.seq r.rt (Conc.lookupL items) (if cfg.metaInitNow then some now else none)
    if r.rt = T then
      match Conc.cstep V tn s.conc (.deliver (Seq.isFull T) items) with
      | some c' => some ({ seq := q', conc := c', inflight := none }, [.deliver (Seq.isFull T) items])
      | none => none
    else some ({ s with seq := q', inflight := none }, [])
  | _ => none

def step (cfg : Seq.Cfg) (V : Conc.Variant) (T : Seq.RType) (tn : Nat → Name) (s : St) : Lbl → Option (St × Emit)
  | .getStart i now =>
    match Conc.cstep V tn s.conc (.getStart i), Seq.step cfg s.seq (.touch T (tn i) now) with
    | some c', some q' => some ({ s with seq := q', conc := c' }, { seq := [.touch T (tn i) now], conc := [.getStart i] })
    | _, _ => none
  | .getRegister i =>
    match Conc.cstep V tn s.conc (.getRegister i) with
    | none => none
    | some c' =>
      -- `Watch` is called only by the lookup that creates the notifier (the notifier counter advanced)
      if c'.nextNf = s.conc.nextNf then some ({ s with conc := c' }, { conc := [.getRegister i] })
      else match Seq.step cfg s.seq (.subscribe T (tn i)) with
        | some q' => some ({ s with seq := q', conc := c' }, { seq := [.subscribe T (tn i)], conc := [.getRegister i] })
        | none => none
  | .getWake i =>
    match Conc.cstep V tn s.conc (.getWake i) with
    | some c' => some ({ s with conc := c' }, { conc := [.getWake i] })
    | none => none
  | .getDeadline i =>
    match Conc.cstep V tn s.conc (.getDeadline i) with
    | some c' => some ({ s with conc := c' }, { conc := [.getDeadline i] })
    | none => none
  | .getReread i now =>
    match Conc.cstep V tn s.conc (.getReread i), Seq.step cfg s.seq (.touch T (tn i) now) with
    | some c', some q' => some ({ s with seq := q', conc := c' }, { seq := [.touch T (tn i) now], conc := [.getReread i] })
    | _, _ => none
  | .getCleanup i =>
    match Conc.cstep V tn s.conc (.getCleanup i) with
    | some c' => some ({ s with conc := c' }, { conc := [.getCleanup i] })
    | none => none
  | .recvAck r => (doAck s r).map (fun s' => (s', {}))
  | .recvFilter => (doFilter cfg s).map (fun s' => (s', {}))
  | .recvApply now => (doApply cfg V T tn s now).map (fun (s', cl) => (s', { conc := cl }))
  | .op (.push r now) =>
    -- the three sections back to back
    match doAck s r with
    | none => none
    | some s1 =>
      match s1.inflight with
      | none => some (s1, { seq := [.push r now] })
      | some _ =>
        match doFilter cfg s1 with
        | none => none
        | some s2 =>
          match doApply cfg V T tn s2 now with
          | some (s3, cl) => some (s3, { seq := [.push r now], conc := cl })
          | none => none
  | .op (.evict rt n now) =>
    match Seq.step cfg s.seq (.evict rt n now) with
    | none => none
    | some q' =>
      -- the cleaner's iteration runs under `m.mu`: it removes the entry the lookups read
      if rt = T ∧ (s.conc.cache n).isSome then
        match Conc.cstep V tn s.conc (.evict n) with
        | some c' => some ({ s with seq := q', conc := c' }, { seq := [.evict rt n now], conc := [.evict n] })
        | none => none
      else some ({ s with seq := q' }, { seq := [.evict rt n now] })
  | .op o =>
    -- the receiver is one goroutine: while a response is between two sections it does nothing else
    if receiverOp o ∧ s.inflight.isSome then none
    else match Seq.step cfg s.seq o with
      | some q' => some ({ s with seq := q' }, { seq := [o] })
      | none => none

/-- run a schedule, collecting the component-layer views -/
def run (cfg : Seq.Cfg) (V : Conc.Variant) (T : Seq.RType) (tn : Nat → Name) : St → List Lbl → Option (St × Emit)
  | s, [] => some (s, {})
  | s, l :: ls =>
    match step cfg V T tn s l with
    | none => none
    | some (s', e) =>
      match run cfg V T tn s' ls with
      | none => none
      | some (s'', e') => some (s'', { seq := e.seq ++ e'.seq, conc := e.conc ++ e'.conc })

/-- the labels that tear a response handler into its lock sections -/
def fine : Lbl → Bool
  | .recvAck _ | .recvFilter | .recvApply _ => true
  | _ => false

/-- a schedule in which the receiver's sections are never torn apart (only atomic pushes) -/
def atomic (ls : List Lbl) : Bool := ls.all (fun l => !fine l)

end XdsVerif.Sys
