/-!
# Models of the three update handlers and of how the manager feeds them
`xdssuite/circuitbreak.go`, `xdssuite/retry.go`, `xdssuite/limiter.go`, and the handler call in
`xdsResourceManager.UpdateResource` / `RegisterXDSUpdateHandler` (manager.go).

Update maps and policy tables are functions `String → Option …` (Go maps); the driver evaluates
them on the names a case mentions.
-/
namespace XdsVerif.Handlers

/-! ## circuit breaker (C16) -/

structure CbCfg where
  enable : Bool
  /-- failure-percentage threshold; the error rate is `thr / 100` -/
  thr : Nat
  minSample : Nat
  deriving DecidableEq, Repr, Inhabited

def cbDisabled : CbCfg := ⟨false, 0, 0⟩

/-- a cluster update map: name ↦ outlier detection `(threshold, volume)` if present -/
abbrev CUp := String → Option (Option (Nat × Nat))

/-- `updateCircuitPolicy`: clusters without outlier detection are skipped -/
def cbPolicy (up : CUp) (k : String) : Option CbCfg :=
  match up k with
  | some (some (thr, vol)) => if vol ≠ 0 ∧ thr ≠ 0 then some ⟨true, thr, vol⟩ else some cbDisabled
  | _ => none

structure CbSt where
  cfg : String → Option CbCfg      -- per-destination configuration installed in the CBSuite
  last : String → Bool             -- `lastPolicies` (nil and empty behave alike)

def cbInit : CbSt := ⟨fun _ => none, fun _ => false⟩

/-- `updateAllCircuitConfigs ∘ updateCircuitPolicy` -/
def cbApply (s : CbSt) (up : CUp) : CbSt :=
  { cfg := fun k => match cbPolicy up k with
      | some c => some c
      | none => if s.last k then some cbDisabled else s.cfg k,
    last := fun k => (cbPolicy up k).isSome }

/-! ## retry policies (C17) -/

inductive BackOff
  | none
  | fixed (ms : Nat)
  | random (minMs maxMs : Nat)
  deriving DecidableEq, Repr, Inhabited

structure RetryPol where
  maxRetry : Nat
  maxDurationMs : Nat
  errRate : String             -- the header string as sent (floats are never compared)
  backoff : BackOff
  deriving DecidableEq, Repr, Inhabited

structure RRoute where
  clusters : List String
  numRetries : Nat
  perTryMs : Nat
  errRate : String
  /-- back-off `(baseNs, maxNs)` as decoded, in nanoseconds -/
  backoff : Option (Nat × Nat)
  methods : List String
  deriving DecidableEq, Repr, Inhabited

/-- a named route table as the retry handler sees it: all routes of all virtual hosts in order -/
abbrev RTable := List RRoute

def W32 : Nat := 4294967296

def polOf (r : RRoute) : RetryPol :=
  { maxRetry := r.numRetries
    maxDurationMs := ((r.perTryMs % W32) * (r.numRetries % W32)) % W32
    errRate := r.errRate
    backoff := match r.backoff with
      | none => .none
      | some (b, m) => if m > b then .random (b / 1000000) (m / 1000000) else .fixed (b / 1000000) }

/-- keys a route installs: every cluster, and `cluster|method` for every listed method -/
def keysOf (r : RRoute) : List String :=
  r.clusters.flatMap (fun c => c :: r.methods.map (fun m => c ++ "|" ++ m))

/-- the policy a list of routes installs for a key: the last route (in order) that mentions it -/
def derive (routes : List RRoute) (k : String) : Option RetryPol :=
  (routes.reverse.find? (fun r => (keysOf r).contains k)).map polOf

inductive View | update | merged | other
  deriving DecidableEq, Repr, Inhabited

structure HandlerFacts where
  /-- what `UpdateResource` hands to the handlers of a merge type: the update map, or the merged cache -/
  mergeView : View
  /-- handlers run before the cache write, inside the same locked region -/
  handlersFirst : Bool
  /-- `RegisterXDSUpdateHandler` replays the cached map of the type, when there is one -/
  replayOnRegister : Bool
  deriving DecidableEq, Repr, Inhabited

def expectedFacts : HandlerFacts := { mergeView := .merged, handlersFirst := true, replayOnRegister := true }

/-- route-table update maps: name ↦ table -/
abbrev RUp := List (String × RTable)

structure RetrySt where
  cache : List (String × RTable)           -- cached named route tables (merge type), newest binding first
  pol : String → Option RetryPol           -- policies installed in the retry container
  last : String → Bool                     -- `lastPolicies`

def retryInit : RetrySt := ⟨[], fun _ => none, fun _ => false⟩

def allRoutes (tables : List (String × RTable)) : List RRoute := tables.flatMap (·.2)

/-- merge by name: bindings of `up` replace cached ones -/
def mergeTables (cache up : List (String × RTable)) : List (String × RTable) :=
  up ++ cache.filter (fun e => !(up.any (fun u => u.1 = e.1)))

/-- `updateRetryPolicy` on the map the manager hands over -/
def retryHandler (s : RetrySt) (view : List (String × RTable)) : RetrySt :=
  let rs := allRoutes view
  { s with
    pol := fun k => match derive rs k with
      | some p => some p
      | none => if s.last k then none else s.pol k,
    last := fun k => (derive rs k).isSome }

/-- `UpdateResource(RouteConfigType, up)`: handlers, then the merge into the cache -/
def retryUpdate (F : HandlerFacts) (s : RetrySt) (up : RUp) : RetrySt :=
  let view := match F.mergeView with
    | .merged => mergeTables s.cache up
    | _ => up
  let s1 := retryHandler s view
  { s1 with cache := mergeTables s.cache up }

/-! ## server rate limit (C18) -/

/-- a listener as the limiter sees it: per network filter `(RoutePort, TokensPerFill of the inline route config if any)` -/
abbrev Chains := List (Nat × Option Nat)

/-- `getLimiterPolicy`: port ↦ tokens (a later filter with the same port replaces an earlier one) -/
def tokensFor (cs : Chains) (port : Nat) : Option Nat :=
  (cs.reverse.find? (fun c => c.1 = port ∧ c.2.isSome)).bind (·.2)

/-- `none` = unlimited (`math.MaxInt`) -/
def limitOf (port : Nat) (inbound : Option Chains) : Option Nat :=
  match inbound with
  | none => none
  | some cs =>
    let t := match tokensFor cs port with
      | some t => t
      | none => match tokensFor cs 0 with
        | some t => t
        | none => 0
    if t = 0 then none else some t

/-- which network filters `getLimiterPolicy` reads (fact from the source) -/
inductive LimiterScope
  | all        -- every filter that carries an inline route config (a Thrift-proxy filter always does, with a zero bucket)
  | httpOnly   -- HTTP connection managers only
  | other
  deriving DecidableEq, Repr, Inhabited

inductive FKind | http | thrift
  deriving DecidableEq, Repr, Inhabited

/-- a network filter of the decoded inbound listener: kind, `RoutePort` (a Thrift-proxy filter has none: 0), and the
tokens-per-fill of its inline route config if it has one -/
structure NFilter where
  kind : FKind
  port : Nat
  tokens : Option Nat
  deriving DecidableEq, Repr, Inhabited

/-- the listener as the limiter sees it -/
def chainsOf (scope : LimiterScope) (fs : List NFilter) : Chains :=
  (fs.filter (fun f => match scope with | .httpOnly => f.kind = .http | _ => true)).map (fun f => (f.port, f.tokens))

structure LimitSt where
  qps : Option (Option Nat)       -- `none`: never configured (zero limit.Option); `some none`: unlimited
  hasUpdater : Bool
  pushed : List (Option Nat)      -- limits pushed to the running server's limiter, in order
  deriving Repr, Inhabited

def limitInit : LimitSt := ⟨none, false, []⟩

/-- `listenerUpdater` on a listener update map (`inbound` = the reserved listener's entry, if present) -/
def limitApply (port : Nat) (s : LimitSt) (inbound : Option Chains) : LimitSt :=
  let q := limitOf port inbound
  { s with qps := some q, pushed := if s.hasUpdater then s.pushed ++ [q] else s.pushed }

/-- `UpdateControl`: the running server installs its updater and receives the current option -/
def limitInstall (s : LimitSt) : LimitSt :=
  { s with hasUpdater := true, pushed := s.pushed ++ [s.qps.getD (some 0)] }

end XdsVerif.Handlers
