/-!
# Model of `xdssuite.pickCluster` (router.go)

Weights are Go `uint32`; `currWeight` and `calTotalWeight` wrap modulo 2^32. The comparison
operator and the random-draw primitive are *facts* read from the source (`PickFacts`).
The draw itself is a parameter `t` (the value returned by the draw primitive).
-/
namespace XdsVerif.Pick

/-- 2^32 -/
def W : Nat := 4294967296

inductive Draw | int31n | uint32n | other
  deriving DecidableEq, Repr, Inhabited

structure PickFacts where
  /-- scan comparison is `currWeight > targetWeight` (true) or `>=` (false) -/
  strict : Bool
  /-- the primitive used for the random draw -/
  draw : Draw
  /-- guards `len==0`, `len==1`, `total<=0` are present in that order before the draw -/
  guards : Bool
  /-- `currWeight` starts at 0 and is incremented before the comparison -/
  scanShape : Bool
  deriving DecidableEq, Repr, Inhabited

/-- `calTotalWeight`: uint32 sum with wrap-around -/
def total (ws : List Nat) : Nat := ws.foldl (fun a w => (a + w) % W) 0

def cmp (strict : Bool) (a b : Nat) : Bool := if strict then decide (a > b) else decide (a ≥ b)

/-- the cumulative scan; `cur` is `currWeight` before the element is added -/
def scan (strict : Bool) : List Nat → Nat → Nat → Nat → Option Nat
  | [], _, _, _ => none
  | w :: ws, cur, tgt, idx =>
    if cmp strict ((cur + w) % W) tgt then some idx
    else scan strict ws ((cur + w) % W) tgt (idx + 1)

inductive Out | idx (i : Nat) | err | panic
  deriving DecidableEq, Repr, Inhabited

/-- the set `[0,n)` the draw primitive ranges over for a given total; `none` = the primitive panics -/
def drawRange : Draw → Nat → Option Nat
  | .int31n, tot => if tot < 2147483648 ∧ 0 < tot then some tot else none   -- Int31n(int32(tot)) panics for n <= 0
  | .uint32n, tot => some tot
  | .other, _ => none

/-- `pickCluster` given the value `t` of the draw -/
def pick (F : PickFacts) (ws : List Nat) (t : Nat) : Out :=
  match ws with
  | [] => .err
  | [_] => .idx 0
  | _ =>
    let tot := total ws
    if tot = 0 then .err
    else match drawRange F.draw tot with
      | none => .panic
      | some _ =>
        match scan F.strict ws 0 t 0 with
        | some i => .idx i
        | none => .err

/-- number of draw values in `[0,n)` that select outcome `o` (exact distribution, executable) -/
def countOut (F : PickFacts) (ws : List Nat) (n : Nat) (o : Out) : Nat :=
  ((List.range n).filter (fun t => decide (pick F ws t = o))).length

end XdsVerif.Pick
