import XdsVerif.Model.Route
/-!
# Model of listener / route-configuration decoding (`core/xdsresource/lds.go`, `rds.go`, `matcher.go`)

Message *trees* mirror exactly the fields the decoders read after `proto.Unmarshal` (trusted). Every
optional sub-message is an `Option`, every `oneof` an inductive with an `other` alternative, every
nested `Any` a `PAny` (`badUrl` = some other type URL, `badBytes` = right URL but not a valid
encoding). A pointer the code dereferences *directly* (no nil-safe getter) is an `Option` whose `none`
makes the decoder `panic`; `proto.Unmarshal` never produces those `none`s (predicate `FromWire`).
Durations are nanoseconds. `compiles : String → Bool` is Go's `regexp.Compile` succeeding (parameter).
-/
namespace XdsVerif.Decode
open XdsVerif.Route

/-- external functions the decoders call: `regexp.Compile` succeeding, `strconv.ParseFloat` succeeding -/
structure Oracles where
  compiles : String → Bool
  parsesFloat : String → Bool

inductive PAny (α : Type)
  | badUrl
  | badBytes
  | ok (a : α)
  deriving Repr, Inhabited

inductive Outcome (α : Type)
  | ok (a : α)
  | err (msg : String)
  | panic
  deriving Repr, Inhabited

/-! ## route configuration -/

inductive PPattern
  | exact (s : String)
  | pfx (s : String)
  | safeRegex (r : Option String)      -- `SafeRegex == nil` is guarded in the code
  | other                              -- suffix / contains / unset
  deriving DecidableEq, Repr, Inhabited

inductive PHeaderSpec
  | stringMatch (p : PPattern)         -- `HeaderMatcher_StringMatch` (a nil StringMatch has no pattern = `other`)
  | other                              -- exact_match / present_match / range … / unset
  deriving DecidableEq, Repr, Inhabited

structure PHeader where
  name : String
  spec : PHeaderSpec
  deriving DecidableEq, Repr, Inhabited

inductive PPath
  | pfx (s : String)
  | path (s : String)
  | other                              -- safe_regex, connect_matcher, … / unset
  deriving DecidableEq, Repr, Inhabited

structure PRouteMatch where
  path : PPath
  headers : List PHeader
  deriving DecidableEq, Repr, Inhabited

structure PBackoff where
  base : Option Int       -- ns
  max : Option Int
  deriving DecidableEq, Repr, Inhabited

structure PRetry where
  retryOn : String
  numRetries : Option Nat
  perTry : Option Int
  perTryIdle : Option Int
  retriable : List PHeader
  backoff : Option PBackoff
  deriving DecidableEq, Repr, Inhabited

inductive PClusterSpec
  | cluster (name : String)
  /-- `none` = the wrapper holds a nil `WeightedCluster` pointer (dereferenced directly) -/
  | weighted (cs : Option (List (String × Option Nat)))
  | other                              -- cluster_header / cluster_specifier_plugin / unset
  deriving DecidableEq, Repr, Inhabited

structure PRouteAction where
  spec : PClusterSpec
  timeout : Option Int    -- ns
  retry : Option PRetry
  deriving DecidableEq, Repr, Inhabited

inductive PAction
  | none
  | route (a : PRouteAction)
  | other                              -- redirect / direct_response / filter_action …
  deriving DecidableEq, Repr, Inhabited

structure PRoute where
  name : String
  mtch : Option PRouteMatch
  action : PAction
  deriving DecidableEq, Repr, Inhabited

structure PVirtualHost where
  name : String
  routes : List PRoute
  deriving DecidableEq, Repr, Inhabited

structure PRouteConfiguration where
  name : String
  vhosts : List PVirtualHost
  deriving DecidableEq, Repr, Inhabited

/-! ## decoded values -/

structure DBackoff where
  base : Int
  max : Int
  deriving DecidableEq, Repr, Inhabited

structure DRetry where
  retryOn : String := ""
  numRetries : Nat := 0
  perTry : Int := 0
  perTryIdle : Int := 0
  /-- the `kitexRetryErrorRate` header value that was parsed (`none`: absent or empty) -/
  errRate : Option String := none
  backoff : Option DBackoff := none
  methods : List String := []
  deriving DecidableEq, Repr, Inhabited

structure DRoute where
  mtch : RMatch
  clusters : List (String × Nat)
  timeout : Int := 0
  retry : DRetry := {}
  deriving Repr, Inhabited

structure DVirtualHost where
  name : String
  routes : List DRoute
  deriving Repr, Inhabited

structure DRouteCfg where
  http : Option (List DVirtualHost)
  thrift : Option (List DRoute)
  maxTokens : Nat := 0
  tokensPerFill : Nat := 0
  deriving Repr, Inhabited

/-- decoder facts read from the source -/
structure DecodeFacts where
  /-- RetryBackOff.BaseInterval is read from base_interval -/
  backoffBaseOk : Bool
  /-- the rate-limit scan goes on to the next HTTP filter when a filter is not the rate limit -/
  rateLimitScansAll : Bool
  deriving DecidableEq, Repr, Inhabited

def expectedFacts : DecodeFacts := { backoffBaseOk := true, rateLimitScansAll := true }

/-- insert into a Go map kept as an association list: a later entry for the same key replaces the earlier -/
def mapSet (m : Headers) (k : String) (v : Matcher) : Headers :=
  (m.filter (fun e => e.1 ≠ k)) ++ [(k, v)]

/-- `BuildMatchers` -/
def buildMatchers (compiles : Oracles) (hs : List PHeader) : Headers :=
  hs.foldl (fun m h =>
    match h.spec with
    | .stringMatch (.exact s) => if s ≠ "" then mapSet m h.name (.exact s) else m
    | .stringMatch (.pfx s) => if s ≠ "" then mapSet m h.name (.pfx s) else m
    | .stringMatch (.safeRegex (some r)) => if r ≠ "" ∧ compiles.compiles r then mapSet m h.name (.regex r) else m
    | _ => m) []

/-- Go `strings.Split(s, ",")` -/
def splitComma (s : String) : List String := s.splitOn ","

/-- one retriable header: only non-empty exact values of the two extension names are used -/
def extValue (h : PHeader) : String :=
  match h.spec with
  | .stringMatch (.exact s) => s
  | _ => ""                       -- `GetStringMatch() == nil` or `GetExact() == ""`: skipped

def retryExtStep (O : Oracles) (d : DRetry) (h : PHeader) : DRetry :=
  if extValue h = "" then d
  else if h.name = "kitexRetryErrorRate" then (if O.parsesFloat (extValue h) then { d with errRate := some (extValue h) } else d)
  else if h.name = "kitexRetryMethods" then { d with methods := splitComma (extValue h) }
  else d

/-- the two retriable-header extensions; a later header of the same name overrides -/
def retryExt (O : Oracles) (hs : List PHeader) (d : DRetry) : DRetry := hs.foldl (retryExtStep O) d

def decodeRetry (F : DecodeFacts) (O : Oracles) (p : PRetry) : DRetry :=
  let d : DRetry := { retryOn := p.retryOn, numRetries := p.numRetries.getD 0, perTry := p.perTry.getD 0,
                      perTryIdle := p.perTryIdle.getD 0 }
  let d := retryExt O p.retriable d
  match p.backoff with
  | none => d
  | some b => { d with backoff := some { base := if F.backoffBaseOk then b.base.getD 0 else b.max.getD 0, max := b.max.getD 0 } }

/-- one route of `unmarshalRoutes` -/
def decodeRoute (F : DecodeFacts) (compiles : Oracles) (r : PRoute) : Outcome DRoute :=
  match r.mtch with
  | none => .err ("no match in route " ++ r.name)
  | some m =>
    let hm : HTTPMatch :=
      { path := match m.path with | .path s => s | _ => "",
        pfx := match m.path with | .pfx s => s | _ => "",
        headers := buildMatchers compiles m.headers }
    match r.action with
    | .none => .err ("no action in route " ++ r.name)
    | .other => .ok { mtch := .http hm, clusters := [] }
    | .route a =>
      let cl : Outcome (List (String × Nat)) :=
        match a.spec with
        | .cluster n => .ok [(n, 1)]
        | .weighted none => .panic
        | .weighted (some cs) => .ok (cs.map (fun c => (c.1, c.2.getD 0)))
        | .other => .ok []
      match cl with
      | .panic => .panic
      | .err e => .err e
      | .ok clusters =>
        .ok { mtch := .http hm, clusters := clusters, timeout := a.timeout.getD 0,
              retry := match a.retry with | some p => decodeRetry F compiles p | none => {} }

/-- `unmarshalRoutes`: the first failing route aborts -/
def decodeRoutes (F : DecodeFacts) (compiles : Oracles) : List PRoute → Outcome (List DRoute)
  | [] => .ok []
  | r :: rest =>
    match decodeRoute F compiles r with
    | .panic => .panic
    | .err e => .err e
    | .ok d =>
      match decodeRoutes F compiles rest with
      | .panic => .panic
      | .err e => .err e
      | .ok ds => .ok (d :: ds)

/-- `unmarshalRouteConfig` -/
def decodeVHosts (F : DecodeFacts) (compiles : Oracles) : List PVirtualHost → Outcome (List DVirtualHost)
  | [] => .ok []
  | v :: rest =>
    match decodeRoutes F compiles v.routes with
    | .panic => .panic
    | .err e => .err ("processing route in virtual host " ++ v.name ++ " failed: " ++ e)
    | .ok rs =>
      match decodeVHosts F compiles rest with
      | .panic => .panic
      | .err e => .err e
      | .ok vs => .ok (⟨v.name, rs⟩ :: vs)

def decodeRouteConfig (F : DecodeFacts) (compiles : Oracles) (c : PRouteConfiguration) : Outcome DRouteCfg :=
  match decodeVHosts F compiles c.vhosts with
  | .panic => .panic
  | .err e => .err e
  | .ok vs => .ok { http := some vs, thrift := none }

/-- result of a multi-resource decoder: the map (as an association list, later names replace earlier) and the
error messages (non-empty ⇒ the response is NACKed) -/
structure Decoded (α : Type) where
  entries : List (String × α)
  errors : List String
  deriving Repr, Inhabited

/-- `UnmarshalRDS` -/
def decodeRDS (F : DecodeFacts) (compiles : Oracles) : List (PAny PRouteConfiguration) → Outcome (Decoded DRouteCfg)
  | [] => .ok ⟨[], []⟩
  | r :: rest =>
    match decodeRDS F compiles rest with
    | .panic =>
      -- the earlier resource is processed first: it may panic or not, the result is a panic either way
      .panic
    | .err e => .err e
    | .ok d =>
      match r with
      | .badUrl => .ok ⟨d.entries, "invalid route config resource type" :: d.errors⟩
      | .badBytes => .ok ⟨d.entries, "unmarshal failed" :: d.errors⟩
      | .ok c =>
        match decodeRouteConfig F compiles c with
        | .panic => .panic
        | .err e => .ok ⟨d.entries, e :: d.errors⟩
        | .ok v => .ok ⟨if d.entries.any (fun e => e.1 = c.name) then d.entries else (c.name, v) :: d.entries, d.errors⟩

/-! ## listeners -/

inductive PThriftSpec
  | method (s : String)
  | service (s : String)
  | other
  deriving DecidableEq, Repr, Inhabited

structure PThriftMatch where
  spec : PThriftSpec
  headers : List PHeader
  deriving DecidableEq, Repr, Inhabited

inductive PThriftCluster
  | cluster (name : String)
  | weighted (cs : Option (List (String × Option Nat)))
  | other
  deriving DecidableEq, Repr, Inhabited

structure PThriftRoute where
  mtch : Option PThriftMatch
  route : Option PThriftCluster       -- `r.Route` (nil = error); the cluster specifier inside
  deriving DecidableEq, Repr, Inhabited

structure PThriftProxy where
  /-- `tp.RouteConfig` (read through a nil-safe getter; its `Name` is read directly only inside the route loop) -/
  routeConfig : Option (String × List PThriftRoute)
  deriving DecidableEq, Repr, Inhabited

inductive PTokenSrc
  /-- a LocalRateLimit message: `token_bucket` present with (max_tokens, tokens_per_fill wrapper) or absent -/
  | rateLimit (p : PAny (Option (Nat × Option Nat)))
  /-- a TypedStruct: the three struct fields present? with their numbers -/
  | typedStruct (p : PAny (Option (Option Nat × Option Nat)))   -- token_bucket? then (max_tokens?, tokens_per_fill?)
  | otherUrl
  deriving Repr, Inhabited

inductive PHttpFilter
  | typed (cfg : Option PTokenSrc)     -- `GetTypedConfig() == nil` is guarded
  | other                              -- config_discovery / unset
  deriving Repr, Inhabited

inductive PRouteSpecifier
  | rds (name : Option String)         -- `GetRds() == nil` guarded; name may be ""
  | routeConfig (c : Option PRouteConfiguration)
  | other                              -- scoped_routes / unset
  deriving Repr, Inhabited

structure PHcm where
  spec : PRouteSpecifier
  httpFilters : List PHttpFilter
  deriving Repr, Inhabited

inductive PFilterPayload
  | thrift (p : PAny PThriftProxy)
  | hcm (p : PAny PHcm)
  | otherUrl
  deriving Repr, Inhabited

inductive PFilterCfg
  /-- `Filter_TypedConfig`; `none` = nil inner `Any` (its `TypeUrl` is read directly) -/
  | typed (a : Option PFilterPayload)
  | other
  deriving Repr, Inhabited

structure PFilterChain where
  destPort : Option Nat
  filters : List PFilterCfg
  deriving Repr, Inhabited

structure PListener where
  name : String
  chains : List PFilterChain
  dflt : Option PFilterChain
  deriving Repr, Inhabited

structure DFilter where
  isThrift : Bool
  routeConfigName : String
  port : Nat
  inline : Option DRouteCfg
  deriving Repr, Inhabited

structure DListener where
  filters : List DFilter
  deriving Repr, Inhabited

/-- `unmarshalThriftProxy` routes -/
def decodeThriftRoutes (compiles : Oracles) : List PThriftRoute → Outcome (List DRoute)
  | [] => .ok []
  | r :: rest =>
    match r.mtch with
    | none => .err "no match in routeConfig"
    | some m =>
      match r.route with
      | none => .err "no action in routeConfig"
      | some a =>
        let cl : Outcome (List (String × Nat)) :=
          match a with
          | .cluster n => .ok [(n, 1)]
          | .weighted none => .panic
          | .weighted (some cs) => .ok (cs.map (fun c => (c.1, c.2.getD 0)))
          | .other => .ok []
        match cl with
        | .panic => .panic
        | .err e => .err e
        | .ok clusters =>
          let tm : ThriftMatch :=
            { method := match m.spec with | .method s => s | _ => "",
              service := match m.spec with | .service s => s | _ => "",
              tags := buildMatchers compiles m.headers }
          match decodeThriftRoutes compiles rest with
          | .panic => .panic
          | .err e => .err e
          | .ok ds => .ok ({ mtch := .thrift tm, clusters := clusters } :: ds)

/-- `getLocalRateLimitFromHttpConnectionManager`: (maxTokens, tokensPerFill) -/
def rateLimitOf (F : DecodeFacts) : List PHttpFilter → Outcome (Nat × Nat)
  | [] => .ok (0, 0)
  | f :: rest =>
    let next : Outcome (Nat × Nat) := if F.rateLimitScansAll then rateLimitOf F rest else .ok (0, 0)
    match f with
    | .other => next                               -- not a typed config: falls to the end of the loop body
    | .typed none => rateLimitOf F rest            -- `continue`
    | .typed (some src) =>
      match src with
      | .rateLimit .badUrl => next                 -- unreachable (the URL selected this branch); kept total
      | .rateLimit .badBytes => .err "unmarshal LocalRateLimit failed"
      | .rateLimit (.ok (some (mt, tpf))) => .ok (mt, tpf.getD 0)
      | .rateLimit (.ok none) => next
      | .typedStruct .badUrl => next
      | .typedStruct .badBytes => .err "unmarshal TypedStruct failed"
      | .typedStruct (.ok none) => rateLimitOf F rest                         -- no token_bucket: `continue`
      | .typedStruct (.ok (some (some mt, some tpf))) => .ok (mt, tpf)
      | .typedStruct (.ok (some _)) => rateLimitOf F rest                     -- a field missing: `continue`
      | .otherUrl => next

/-- `unmarshallHTTPConnectionManager`: (route config name, inline) -/
def decodeHcm (F : DecodeFacts) (compiles : Oracles) (h : PHcm) : Outcome (String × Option DRouteCfg) :=
  match rateLimitOf F h.httpFilters with
  | .panic => .panic
  | .err e => .err e
  | .ok (mt, tpf) =>
    match h.spec with
    | .rds none => .err "no Rds in the apiListener"
    | .rds (some n) => if n = "" then .err "no route config Name" else .ok (n, some { http := none, thrift := none, maxTokens := mt, tokensPerFill := tpf })
    | .routeConfig none => .err "no inline route config"
    | .routeConfig (some c) =>
      match decodeRouteConfig F compiles c with
      | .panic => .panic
      | .err e => .err e
      | .ok d => .ok (c.name, some { d with maxTokens := mt, tokensPerFill := tpf })
    | .other => .ok ("", none)

/-- `unmarshalFilterChain`: filters decoded, errors collected (a failing filter is skipped) -/
def decodeChain (F : DecodeFacts) (compiles : Oracles) (fc : PFilterChain) : Outcome (List DFilter × List String) :=
  let port := fc.destPort.getD 0
  fc.filters.foldl (fun acc f =>
    match acc with
    | .panic => .panic
    | .err e => .err e
    | .ok (fs, errs) =>
      match f with
      | .other => .ok (fs, errs)
      | .typed none => .panic
      | .typed (some .otherUrl) => .ok (fs, errs)
      | .typed (some (.thrift .badUrl)) => .ok (fs, errs)
      | .typed (some (.thrift .badBytes)) => .ok (fs, errs ++ ["unmarshal ThriftProxy failed"])
      | .typed (some (.thrift (.ok tp))) =>
        (match decodeThriftRoutes compiles (match tp.routeConfig with | some rc => rc.2 | none => []) with
         | .panic => .panic
         | .err e => .ok (fs, errs ++ [e])
         | .ok rs => .ok (fs ++ [{ isThrift := true, routeConfigName := "", port := 0,
                                   inline := some { http := none, thrift := some rs } }], errs))
      | .typed (some (.hcm .badUrl)) => .ok (fs, errs)
      | .typed (some (.hcm .badBytes)) => .ok (fs, errs ++ ["unmarshal HttpConnectionManager failed"])
      | .typed (some (.hcm (.ok h))) =>
        (match decodeHcm F compiles h with
         | .panic => .panic
         | .err e => .ok (fs, errs ++ [e])
         | .ok (n, inl) => .ok (fs ++ [{ isThrift := false, routeConfigName := n, port := port, inline := inl }], errs)))
    (.ok ([], []))

/-- one listener of `UnmarshalLDS`: the decoded value (stored even when a chain had errors) and the error messages -/
def decodeListener (F : DecodeFacts) (compiles : Oracles) (l : PListener) : Outcome (DListener × List String) :=
  let chains := l.chains ++ (match l.dflt with | some c => [c] | none => [])
  chains.foldl (fun acc fc =>
    match acc with
    | .panic => .panic
    | .err e => .err e
    | .ok (d, errs) =>
      match decodeChain F compiles fc with
      | .panic => .panic
      | .err e => .err e
      | .ok (fs, es) =>
        -- a filter chain of `FilterChains` with errors contributes nothing; the default chain contributes what decoded
        if es.isEmpty then .ok (⟨d.filters ++ fs⟩, errs)
        else .ok (⟨d.filters⟩, errs ++ es))
    (.ok (⟨[]⟩, []))

/-- `UnmarshalLDS` -/
def decodeLDS (F : DecodeFacts) (compiles : Oracles) : List (PAny PListener) → Outcome (Decoded DListener)
  | [] => .ok ⟨[], []⟩
  | r :: rest =>
    match decodeLDS F compiles rest with
    | .panic => .panic
    | .err e => .err e
    | .ok d =>
      match r with
      | .badUrl => .ok ⟨d.entries, "invalid listener resource type" :: d.errors⟩
      | .badBytes => .ok ⟨d.entries, "unmarshal Listener failed" :: d.errors⟩
      | .ok l =>
        match decodeListener F compiles l with
        | .panic => .panic
        | .err e => .ok ⟨d.entries, e :: d.errors⟩
        | .ok (v, es) => .ok ⟨if d.entries.any (fun e => e.1 = l.name) then d.entries else (l.name, v) :: d.entries, es ++ d.errors⟩

end XdsVerif.Decode
