/-!
# Model of `xdssuite/resolver.go` (`XDSResolver.Target`, `Resolve`, `getEndpoints`)
The two lookups through the resource manager are parameters.
-/
namespace XdsVerif.Resolve

structure Endpoint where
  addr : String          -- "host:port" as printed by net.Addr.String()
  weight : Nat
  deriving DecidableEq, Repr, Inhabited

/-- `*EndpointsResource`: `none` is the typed-nil value stored for an empty load assignment -/
structure Endpoints where
  localities : List (List Endpoint)
  deriving DecidableEq, Repr, Inhabited

structure Cluster where
  endpointName : String
  inline : Option Endpoints          -- `InlineEndpoints` (nil-able)
  deriving DecidableEq, Repr, Inhabited

inductive EmptyCheck
  | localities     -- only `endpoints == nil || len(endpoints.Localities) == 0`
  | flattened      -- additionally: no endpoint after concatenating the localities
  | other
  deriving DecidableEq, Repr, Inhabited

structure ResolveFacts where
  emptyCheck : EmptyCheck
  /-- `if cluster.InlineEndpoints != nil` is tested before the named lookup -/
  inlineFirst : Bool
  /-- `Cacheable: true, CacheKey: desc` -/
  cacheable : Bool
  keyIsDesc : Bool
  /-- `Target` returns the routed-cluster tag when present, else the service name -/
  targetTag : Bool
  deriving DecidableEq, Repr, Inhabited

def expectedFacts : ResolveFacts :=
  { emptyCheck := .flattened, inlineFirst := true, cacheable := true, keyIsDesc := true, targetTag := true }

inductive Err | fetchCluster | fetchEndpoints | noEndpoints
  deriving DecidableEq, Repr, Inhabited

/-- `getEndpoints` -/
def getEndpoints (F : ResolveFacts) (getC : String → Option Cluster) (getE : String → Option (Option Endpoints))
    (desc : String) : Except Err (List Endpoint) :=
  match getC desc with
  | none => .error .fetchCluster
  | some c =>
    let chosen : Except Err (Option Endpoints) :=
      match c.inline with
      | some e => .ok (some e)
      | none => match getE c.endpointName with
        | none => .error .fetchEndpoints
        | some v => .ok v
    match chosen with
    | .error e => .error e
    | .ok none => .error .noEndpoints
    | .ok (some e) =>
      if e.localities.length = 0 then .error .noEndpoints
      else
        let eps := e.localities.flatten
        match F.emptyCheck with
        | .flattened => if eps.length = 0 then .error .noEndpoints else .ok eps
        | _ => .ok eps

structure Result where
  cacheable : Bool
  cacheKey : String
  instances : List Endpoint
  deriving DecidableEq, Repr, Inhabited

/-- `Resolve` -/
def resolve (F : ResolveFacts) (getC : String → Option Cluster) (getE : String → Option (Option Endpoints))
    (desc : String) : Except Err Result :=
  match getEndpoints F getC getE desc with
  | .error e => .error e
  | .ok eps => .ok { cacheable := F.cacheable, cacheKey := if F.keyIsDesc then desc else "", instances := eps }

/-- `Target` -/
def target (tag : Option String) (serviceName : String) : String :=
  match tag with
  | some c => c
  | none => serviceName

end XdsVerif.Resolve
