/-!
# Interleaving semantics of `xdsResourceManager.Get` against `UpdateResource` and the cleaner (manager.go)

Every step is one lock-protected section or one lock-free action of `Get`, in the order the code
performs them (the granularity of `Get`'s lock-free gaps, where the `verif` yield points sit):

* `getStart i`     — kind check + first `getFromCache` (RLock)
* `getRegister i`  — `m.mu.Lock()`: (re-check the cache, per variant) find-or-create the notifier, attach, `Watch` if new; unlock
* `getWake i`      — the `select` takes the notifier arm (enabled iff the notifier is closed)
* `getDeadline i`  — the `select` takes the `ctx.Done()` arm (the environment owns time: enabled whenever waiting)
* `getReread i`    — `getFromCache` after the wake-up; return
* `getCleanup i`   — `m.mu.Lock()`: detach / delete the notifier entry (per variant); return the timeout error
* `deliver`        — `UpdateResource` under `m.mu`: write, close + remove the notifier of every delivered name, prune
* `evict n`        — one firing iteration of the cleaner

Thread `i` looks up the name `tn i`; there are unboundedly many threads (`pc : Nat → PC`).
`Variant` holds the three shape facts of `Get` that are re-read from the source.
-/
namespace XdsVerif.Conc

abbrev Name := String
abbrev Val := String

inductive Res
  | val (v : Val)
  | err              -- an error and no value
  | nilnil           -- neither a value nor an error
  deriving DecidableEq, Repr, Inhabited

inductive PC
  | start
  | missed
  | waiting (nf : Nat)
  | woken
  | timedOut (nf : Nat)
  | done (r : Res)
  deriving DecidableEq, Repr, Inhabited

inductive Cleanup
  | deleteEntry     -- `delete(m.notifierMap[rType], rName)` unconditionally
  | lastWaiter      -- detach; delete the entry only if it is still this notifier and nobody else waits on it
  | other
  deriving DecidableEq, Repr, Inhabited

structure Variant where
  /-- the cache is re-checked under `m.mu` before a notifier is registered -/
  recheckUnderLock : Bool
  cleanup : Cleanup
  /-- a miss of the re-read after the wake-up is reported as an error -/
  checkReread : Bool
  deriving DecidableEq, Repr, Inhabited

def expectedVariant : Variant := ⟨true, .lastWaiter, true⟩

/-- fingerprint of the bodies of `Get`, `getFromCache` and `notifier.notify` (hook statements stripped) that this model
was written against; the extractor recomputes it from the working tree on every run -/
def expectedGetFingerprint : String := "b5f25eb386f8a8ad"

structure S where
  cache   : Name → Option Val
  notif   : Name → Option Nat       -- notifierMap: name ↦ notifier id
  closed  : Nat → Bool              -- notifier channel closed
  waiters : Nat → Nat               -- waiter count stored in the notifier (variant `lastWaiter`)
  nextNf  : Nat
  pc      : Nat → PC

inductive Lbl
  | getStart (i : Nat) | getRegister (i : Nat) | getWake (i : Nat) | getDeadline (i : Nat)
  | getReread (i : Nat) | getCleanup (i : Nat)
  | deliver (full : Bool) (items : List (Name × Val))
  | evict (n : Name)
  deriving Repr, Inhabited

/-- a later item of the same name wins -/
def lookupL (items : List (Name × Val)) (n : Name) : Option Val :=
  match items with
  | [] => none
  | (k, v) :: rest => match lookupL rest n with
      | some w => some w
      | none => if k = n then some v else none

def setPc (s : S) (i : Nat) (p : PC) : S := { s with pc := fun j => if j = i then p else s.pc j }

/-- attach to the existing notifier `nf`: one more waiter -/
def attachExisting (s : S) (nf : Nat) : S :=
  { s with waiters := fun k => if k = nf then s.waiters nf + 1 else s.waiters k }

/-- create the notifier of name `n` with one waiter -/
def attachNew (s : S) (n : Name) : S :=
  { s with notif := fun m => if m = n then some s.nextNf else s.notif m,
           waiters := fun k => if k = s.nextNf then 1 else s.waiters k,
           nextNf := s.nextNf + 1 }

/-- a timed-out waiter of `nf` (still the entry of name `n`) detaches; the entry goes with the last waiter -/
def detachLast (s : S) (n : Name) (nf : Nat) : S :=
  { s with waiters := fun k => if k = nf then s.waiters nf - 1 else s.waiters k,
           notif := fun m => if m = n ∧ s.waiters nf - 1 = 0 then none else s.notif m }

def cstep (V : Variant) (tn : Nat → Name) (s : S) : Lbl → Option S
  | .getStart i =>
    match s.pc i with
    | .start => match s.cache (tn i) with
        | some v => some (setPc s i (.done (.val v)))
        | none => some (setPc s i .missed)
    | _ => none
  | .getRegister i =>
    match s.pc i with
    | .missed =>
      match (if V.recheckUnderLock then s.cache (tn i) else none) with
      | some v => some (setPc s i (.done (.val v)))
      | none =>
        match s.notif (tn i) with
        | some nf => some (setPc (attachExisting s nf) i (.waiting nf))
        | none => some (setPc (attachNew s (tn i)) i (.waiting s.nextNf))
    | _ => none
  | .getWake i =>
    match s.pc i with
    | .waiting nf => if s.closed nf then some (setPc s i .woken) else none
    | _ => none
  | .getDeadline i =>
    match s.pc i with
    | .waiting nf => some (setPc s i (.timedOut nf))
    | _ => none
  | .getReread i =>
    match s.pc i with
    | .woken => match s.cache (tn i) with
        | some v => some (setPc s i (.done (.val v)))
        | none => some (setPc s i (.done (if V.checkReread then .err else .nilnil)))
    | _ => none
  | .getCleanup i =>
    match s.pc i with
    | .timedOut nf =>
      let s' : S :=
        match V.cleanup with
        | .deleteEntry => { s with notif := fun m => if m = tn i then none else s.notif m }
        | .lastWaiter => if s.notif (tn i) = some nf then detachLast s (tn i) nf else s
        | .other => s
      some (setPc s' i (.done .err))
    | _ => none
  | .deliver full items =>
    some { s with
      cache := fun n => match lookupL items n with
                        | some v => some v
                        | none => if full then none else s.cache n,
      notif := fun n => match lookupL items n with
                        | some _ => none
                        | none => s.notif n,
      closed := fun nf => s.closed nf ||
                  decide (∃ n ∈ items.map Prod.fst, s.notif n = some nf) }
  | .evict n =>
    -- the cleaner only visits entries that were cached
    if (s.cache n).isNone then none else some { s with cache := fun m => if m = n then none else s.cache m }

def init : S := { cache := fun _ => none, notif := fun _ => none, closed := fun _ => false,
                  waiters := fun _ => 0, nextNf := 0, pc := fun _ => .start }

def runL (V : Variant) (tn : Nat → Name) : S → List Lbl → Option S
  | s, [] => some s
  | s, l :: ls => match cstep V tn s l with
      | some s' => runL V tn s' ls
      | none => none

/-- the first statement of `Get`: a kind is accepted iff it has a type URL (`xdsresource.ResourceTypeToURL`, the numbers of
its keys are the regenerated fact `knownKinds`); anything else - the zero kind included - is rejected before any cache
access or subscription -/
def kindAccepted (known : List Nat) (k : Int) : Bool := known.any (fun n => (n : Int) == k)

end XdsVerif.Conc
