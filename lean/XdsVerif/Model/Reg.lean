/-!
# Handler registration against updates (`xdsResourceManager.RegisterXDSUpdateHandler` / `UpdateResource`, manager.go)

"Policy before data": by the time a lookup can see the content an update delivered, every registered update handler
(circuit breaker, retry policies, rate limit) has completed for that content. This is a statement about interleavings
of two operations of the manager, at the granularity of their `m.mu` sections:

* `update v`      — `UpdateResource` under `m.mu`: run every registered handler on the new content, then write the cache
* registration of handler `h`, in the shape the source has (`RegShape`, re-read from the source on every run):
  * `atomic`            — one `m.mu` section: append `h`, replay the cached content to it
  * `replayThenAppend`  — replay (a snapshot read under the read lock), *then* a second section appends `h`
  * `appendThenReplay`  — one section appends `h` and snapshots the cache, the replay runs *after* the lock is released
  The two torn shapes are the ones a "do not run user code under the manager lock" refactoring produces.

Content is an opaque version number; one resource type (handlers of different types never meet).
-/
namespace XdsVerif.Reg

inductive RegShape | atomic | replayThenAppend | appendThenReplay | other
  deriving DecidableEq, Repr, Inhabited

structure S where
  cache : Option Nat
  handlers : List Nat               -- registered, in order
  applied : Nat → Option Nat        -- the content handler `h` last completed for
  pending : Nat → Option (Option Nat)  -- a registration of `h` between its two sections: the snapshot it took

def init : S := { cache := none, handlers := [], applied := fun _ => none, pending := fun _ => none }

inductive Op
  | update (v : Nat)
  | regBegin (h : Nat)
  | regEnd (h : Nat)
  deriving DecidableEq, Repr, Inhabited

def setApplied (s : S) (h : Nat) (v : Option Nat) : S := { s with applied := fun k => if k = h then v else s.applied k }
def setPending (s : S) (h : Nat) (p : Option (Option Nat)) : S := { s with pending := fun k => if k = h then p else s.pending k }

def step (shape : RegShape) (s : S) : Op → Option S
  | .update v =>
    some { s with applied := fun k => if s.handlers.contains k then some v else s.applied k, cache := some v }
  | .regBegin h =>
    if s.handlers.contains h || (s.pending h).isSome then none else
    match shape with
    | .atomic =>
      -- the whole registration is this one section
      some { (match s.cache with | some v => setApplied s h (some v) | none => s) with handlers := s.handlers ++ [h] }
    | .replayThenAppend =>
      some (setPending (match s.cache with | some v => setApplied s h (some v) | none => s) h (some s.cache))
    | .appendThenReplay =>
      some { (setPending s h (some s.cache)) with handlers := s.handlers ++ [h] }
    | .other => none
  | .regEnd h =>
    match s.pending h, shape with
    | some _, .replayThenAppend => some { (setPending s h none) with handlers := s.handlers ++ [h] }
    | some snap, .appendThenReplay =>
      some (setPending (match snap with | some v => setApplied s h (some v) | none => s) h none)
    | _, _ => none

def run (shape : RegShape) : S → List Op → Option S
  | s, [] => some s
  | s, o :: os => match step shape s o with
      | some s' => run shape s' os
      | none => none

/-- what a lookup can see, every registered handler whose registration is complete has completed for -/
def PolicyBeforeData (s : S) : Prop :=
  ∀ h ∈ s.handlers, (s.pending h).isNone → ∀ v, s.cache = some v → s.applied h = some v

end XdsVerif.Reg
