import XdsVerif.Model.Route
import XdsVerif.Model.Pick
/-!
# Model of the routing step
`xdssuite/router.go` (`XDSRouter.Route`, `NewXDSRouterMiddleware`), `xdssuite/retry.go`
(`genRetryServiceKey`). A lookup through the resource manager is a value of `Lk`:
besides an error or a value of the requested kind it can be the two shapes the Go type allows but
the manager must never produce (C05): an untyped nil with a nil error, and a typed nil pointer.
-/
namespace XdsVerif.Middleware
open XdsVerif.Route XdsVerif.Pick

inductive Lk (α : Type)
  | err
  | val (a : α)
  | nilnil            -- `(nil, nil)`: the type assertion on a nil interface panics
  | typedNil          -- `(*T)(nil), nil`: the first field access panics
  deriving Repr, Inhabited

def Lk.toOption {α} : Lk α → Option α
  | .val a => some a
  | _ => none

def Lk.wellShaped {α} : Lk α → Bool
  | .err => true
  | .val _ => true
  | _ => false

inductive RouteOut
  | ok (cluster : String) (timeoutMs : Nat)
  | err
  | panic
  deriving DecidableEq, Repr, Inhabited

/-- `XDSRouter.Route`: `matchRoute` then `pickCluster`; `draw` is the value of the random draw -/
def routeCall (PF : PickFacts) (rx : String → String → Bool) (lis : Lk Listener) (named : String → Lk RouteCfg)
    (grpc : Bool) (md : Meta) (inv : Invocation) (draw : Nat) : RouteOut :=
  match lis with
  | .err => .err
  | .nilnil => .panic
  | .typedNil => .panic
  | .val l =>
    match matchRoute rx (some l) (fun n => (named n).toOption) grpc md inv with
    | .ok r =>
      match pick PF (r.clusters.map (·.2)) draw with
      | .idx i => match r.clusters[i]? with
        | some (c, _) => .ok c r.timeoutMs
        | none => .err
      | .err => .err
      | .panic => .panic
    | .error .routeTable =>
      match lastFilter false l.filters with
      | some f => if (named f.routeConfigName).wellShaped then .err else .panic
      | none => .err
    | .error _ => .err

/-- the part of the call state the routing step touches -/
structure Call where
  tag : Option String      -- `ri.To().Tag(RouterClusterKey)`
  locked : Bool            -- tag locked against later writes
  timeoutMs : Nat          -- RPC timeout of the call
  deriving DecidableEq, Repr, Inhabited

inductive MwErr | route
  deriving DecidableEq, Repr, Inhabited

structure MwOut where
  call : Call
  nextCalls : Nat
  err : Option MwErr
  panicked : Bool := false
  deriving DecidableEq, Repr, Inhabited

/-- the routing middleware -/
def middleware (c : Call) (route : RouteOut) : MwOut :=
  match c.tag with
  | some _ => { call := c, nextCalls := 1, err := none }
  | none =>
    match route with
    | .ok cl t => { call := { tag := some cl, locked := true, timeoutMs := t }, nextCalls := 1, err := none }
    | .err => { call := c, nextCalls := 0, err := some .route }
    | .panic => { call := c, nextCalls := 0, err := none, panicked := true }

structure KeyOut where
  call : Call
  key : String
  panicked : Bool := false
  deriving DecidableEq, Repr, Inhabited

/-- `genRetryServiceKey` -/
def retryKey (matchMethod : Bool) (c : Call) (route : RouteOut) (method : String) : KeyOut :=
  match c.tag with
  | some k => { call := c, key := k }
  | none =>
    match route with
    | .ok cl t => { call := { tag := some cl, locked := true, timeoutMs := t },
                    key := if matchMethod then cl ++ "|" ++ method else cl }
    | .err => { call := c, key := "" }
    | .panic => { call := c, key := "", panicked := true }

end XdsVerif.Middleware
