/-!
# Model of route matching
`xdssuite/router.go` (`matchRoute`, `matchHTTPRoute`, `matchThriftRoute`, `routeMatched`),
`core/xdsresource/rds.go` (`MatchPath`, `MatchMeta`), `core/xdsresource/matcher.go` (`Matchers.Match`).
The regular-expression engine (Go `regexp`) is the parameter `rx : regex → value → Bool`.
-/
namespace XdsVerif.Route

inductive Matcher
  | exact (s : String)
  | pfx (s : String)
  | regex (r : String)
  deriving DecidableEq, Repr, Inhabited

/-- decoded `Matchers` (a Go map: one condition per header name) -/
abbrev Headers := List (String × Matcher)

/-- call metadata (a Go map) -/
abbrev Meta := List (String × String)

def lookup (md : Meta) (k : String) : Option String :=
  match md with
  | [] => none
  | (k', v) :: rest => if k' = k then some v else lookup rest k

/-- Go `strings.HasPrefix(v, p)` -/
def hasPrefix (v p : String) : Bool := p.toList.isPrefixOf v.toList

def Matcher.holds (rx : String → String → Bool) (m : Matcher) (v : String) : Bool :=
  match m with
  | .exact s => s == v
  | .pfx p => hasPrefix v p
  | .regex r => rx r v

/-- `Matchers.Match`: every condition holds; a condition on an absent key is false -/
def matchMeta (rx : String → String → Bool) (hs : Headers) (md : Meta) : Bool :=
  hs.all (fun km => match lookup md km.1 with
    | none => false
    | some v => km.2.holds rx v)

structure HTTPMatch where
  path : String
  pfx : String
  headers : Headers
  deriving Repr, Inhabited

structure ThriftMatch where
  method : String
  service : String
  tags : Headers
  deriving Repr, Inhabited

inductive RMatch
  | none                       -- `Route.Match == nil`
  | http (m : HTTPMatch)
  | thrift (m : ThriftMatch)
  deriving Repr, Inhabited

structure Route where
  mtch : RMatch
  clusters : List (String × Nat)     -- weighted clusters, in order
  timeoutMs : Nat
  deriving Repr, Inhabited

/-- `HTTPRouteMatch.MatchPath` -/
def httpPathOk (m : HTTPMatch) (path : String) : Bool :=
  if m.path != "" then m.path == path else m.pfx == "/"

/-- `ThriftRouteMatch.MatchPath` -/
def thriftPathOk (m : ThriftMatch) (method : String) : Bool :=
  !(m.method != "" && m.method != method)

/-- `routeMatched` -/
def routeMatched (rx : String → String → Bool) (path : String) (md : Meta) (r : Route) : Bool :=
  match r.mtch with
  | .none => false
  | .http m => httpPathOk m path && matchMeta rx m.headers md
  | .thrift m => thriftPathOk m path && matchMeta rx m.tags md

structure VHost where
  name : String
  routes : List Route
  deriving Repr, Inhabited

structure RouteCfg where
  http : Option (List VHost)       -- HTTPRouteConfig (nil-able)
  thrift : Option (List Route)     -- ThriftRouteConfig (nil-able)
  maxTokens : Nat := 0
  tokensPerFill : Nat := 0
  deriving Repr, Inhabited

structure Invocation where
  pkg : String
  svc : String
  method : String
  toMethod : String                 -- `ri.To().Method()`
  deriving Repr, Inhabited

/-- the path matched against HTTP routes -/
def callPath (inv : Invocation) : String :=
  let s := if inv.pkg == "" then inv.svc else inv.pkg ++ "." ++ inv.svc
  "/" ++ s ++ "/" ++ inv.method

/-- `matchHTTPRoute`: nested loops, first hit -/
def matchHTTP (rx : String → String → Bool) (md : Meta) (inv : Invocation) (cfg : RouteCfg) : Option Route :=
  match cfg.http with
  | none => none
  | some vhs => vhs.findSome? (fun vh => vh.routes.find? (routeMatched rx (callPath inv) md))

/-- `matchThriftRoute` -/
def matchThrift (rx : String → String → Bool) (md : Meta) (inv : Invocation) (cfg : RouteCfg) : Option Route :=
  match cfg.thrift with
  | none => none
  | some rs => rs.find? (routeMatched rx inv.toMethod md)

structure Filter where
  isThrift : Bool
  routeConfigName : String
  port : Nat
  inline : Option RouteCfg
  deriving Repr, Inhabited

structure Listener where
  filters : List Filter
  deriving Repr, Inhabited

inductive RErr
  | listener        -- the listener lookup failed
  | noHttpFilter
  | routeTable      -- the named route table lookup failed
  | noMatch
  deriving DecidableEq, Repr, Inhabited

/-- the last filter of a kind (the loop overwrites) -/
def lastFilter (thrift : Bool) (fs : List Filter) : Option Filter :=
  fs.foldl (fun acc f => if f.isThrift = thrift then some f else acc) none

/-- Thrift-proxy routes are consulted first, only for non-gRPC calls, only inline -/
def viaThrift (rx : String → String → Bool) (l : Listener) (grpc : Bool) (md : Meta) (inv : Invocation) : Option Route :=
  if grpc then none else
    match lastFilter true l.filters with
    | some f => match f.inline with
      | some cfg => matchThrift rx md inv cfg
      | none => none
    | none => none

/-- the HTTP filter's inline route table -/
def viaInline (rx : String → String → Bool) (f : Filter) (md : Meta) (inv : Invocation) : Option Route :=
  match f.inline with
  | some cfg => matchHTTP rx md inv cfg
  | none => none

/-- `matchRoute`; lookups are parameters: `lis` the listener lookup result, `named` the route-table lookup -/
def matchRoute (rx : String → String → Bool) (lis : Option Listener) (named : String → Option RouteCfg)
    (grpc : Bool) (md : Meta) (inv : Invocation) : Except RErr Route :=
  match lis with
  | none => .error .listener
  | some l =>
    match viaThrift rx l grpc md inv with
    | some r => .ok r
    | none =>
      match lastFilter false l.filters with
      | none => .error .noHttpFilter
      | some f =>
        match viaInline rx f md inv with
        | some r => .ok r
        | none =>
          match named f.routeConfigName with
          | none => .error .routeTable
          | some cfg =>
            match matchHTTP rx md inv cfg with
            | some r => .ok r
            | none => .error .noMatch

end XdsVerif.Route
