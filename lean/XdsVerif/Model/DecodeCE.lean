import XdsVerif.Model.Resolve
/-!
# Model of cluster / load-assignment decoding (`core/xdsresource/cds.go`, `eds.go`)
Message trees mirror the fields the decoders read. Optional sub-messages are `Option`.
`net.JoinHostPort` is modelled (brackets when the host contains ':' or '%').
-/
namespace XdsVerif.DecodeCE
open XdsVerif.Resolve

structure PEndpoint where
  host : String
  port : Nat
  weight : Nat
  deriving DecidableEq, Repr, Inhabited

structure PCla where
  name : String
  localities : List (List PEndpoint)
  deriving DecidableEq, Repr, Inhabited

/-- `net.JoinHostPort(host, strconv.Itoa(port))` -/
def joinHostPort (host : String) (port : Nat) : String :=
  if host.toList.any (fun c => c = ':' || c = '%') then "[" ++ host ++ "]:" ++ toString port
  else host ++ ":" ++ toString port

/-- `parseClusterLoadAssignment`: `none` is the nil result for an absent or empty assignment -/
def decodeCla (cla : Option PCla) : Option Endpoints :=
  match cla with
  | none => none
  | some a =>
    if a.localities.length = 0 then none
    else some ⟨a.localities.map (fun l => l.map (fun e => ⟨joinHostPort e.host e.port, e.weight⟩))⟩

inductive DiscType | eds | logicalDns | static
  deriving DecidableEq, Repr, Inhabited

inductive LbPolicy | roundRobin | ringHash
  deriving DecidableEq, Repr, Inhabited

structure POutlier where
  threshold : Option Nat          -- FailurePercentageThreshold (wrapper, nil-able)
  volume : Option Nat             -- FailurePercentageRequestVolume
  deriving DecidableEq, Repr, Inhabited

structure PCluster where
  name : String
  typ : Int                        -- the enum number on the wire (a protobuf enum is an int32: negative and unknown values occur)
  lb : Int
  serviceName : String             -- EdsClusterConfig.ServiceName ("" when absent)
  inline : Option PCla
  outlier : Option POutlier
  deriving DecidableEq, Repr, Inhabited

structure DCluster where
  discType : DiscType
  lb : LbPolicy
  endpointName : String
  inline : Option Endpoints
  outlier : Option (Nat × Nat)     -- (threshold, volume)
  deriving DecidableEq, Repr, Inhabited

/-- `convertDiscoveryType` (STATIC=0, STRICT_DNS=1, LOGICAL_DNS=2, EDS=3, ORIGINAL_DST=4) -/
def convType (n : Int) : DiscType :=
  if n = 3 then .eds else if n = 2 then .logicalDns else if n = 0 then .static else .eds

/-- `convertLbPolicy` (ROUND_ROBIN=0, RING_HASH=2) -/
def convLb (n : Int) : LbPolicy := if n = 2 then .ringHash else .roundRobin

/-- `unmarshalCluster` after `proto.Unmarshal` -/
def decodeCluster (c : PCluster) : String × DCluster :=
  (c.name,
   { discType := convType c.typ, lb := convLb c.lb,
     endpointName := if c.serviceName ≠ "" then c.serviceName else c.name,
     inline := decodeCla c.inline,
     outlier := c.outlier.map (fun o => (o.threshold.getD 0, o.volume.getD 0)) })

def DCluster.toResolve (d : DCluster) : Cluster := ⟨d.endpointName, d.inline⟩

/-- a resource slot: wrong type URL, undecodable bytes, or a message -/
inductive Slot (α : Type)
  | badUrl
  | badBytes
  | ok (a : α)
  deriving Repr, Inhabited

/-- result of a multi-resource decoder: entries (a later resource of the same name replaces an earlier one) and errors -/
structure Decoded (α : Type) where
  entries : List (String × α)
  errors : Nat
  deriving Repr, Inhabited

def addEntry {α} (d : Decoded α) (k : String) (v : α) : Decoded α :=
  if d.entries.any (fun e => e.1 = k) then d else { d with entries := (k, v) :: d.entries }

/-- `UnmarshalCDS` (`parseClusterLoadAssignment` never fails, so a decodable cluster is always stored) -/
def decodeCDS : List (Slot PCluster) → Decoded DCluster
  | [] => ⟨[], 0⟩
  | r :: rest =>
    let d := decodeCDS rest
    match r with
    | .ok c => addEntry d (decodeCluster c).1 (decodeCluster c).2
    | _ => { d with errors := d.errors + 1 }

/-- `UnmarshalEDS`: an assignment without localities is stored as the nil value -/
def decodeEDS : List (Slot PCla) → Decoded (Option Endpoints)
  | [] => ⟨[], 0⟩
  | r :: rest =>
    let d := decodeEDS rest
    match r with
    | .ok a => addEntry d a.name (decodeCla (some a))
    | _ => { d with errors := d.errors + 1 }

/-- `UnmarshalNDS`: only the first resource is looked at; an empty response is an error.
The table is a Go map: host ↦ addresses in order -/
def decodeNDS (slots : List (Slot (List (String × List String)))) : Option (List (String × List String)) :=
  match slots with
  | [] => none
  | .ok t :: _ => some t
  | _ :: _ => none

end XdsVerif.DecodeCE
