import XdsVerif.Model.Resolve
/-!
# Model of cluster / load-assignment decoding (`core/xdsresource/cds.go`, `eds.go`)
Message trees mirror the fields the decoders read. Optional sub-messages are `Option`.
`net.JoinHostPort` is modelled (brackets when the host contains ':' or '%').
-/
namespace XdsVerif.DecodeCE
open XdsVerif.Resolve

structure PEndpoint where
  host : String
  port : Nat
  weight : Nat
  deriving DecidableEq, Repr, Inhabited

structure PCla where
  name : String
  localities : List (List PEndpoint)
  deriving DecidableEq, Repr, Inhabited

/-- `net.JoinHostPort(host, strconv.Itoa(port))` -/
def joinHostPort (host : String) (port : Nat) : String :=
  if host.toList.any (fun c => c = ':' || c = '%') then "[" ++ host ++ "]:" ++ toString port
  else host ++ ":" ++ toString port

/-- `parseClusterLoadAssignment`: `none` is the nil result for an absent or empty assignment -/
def decodeCla (cla : Option PCla) : Option Endpoints :=
  match cla with
  | none => none
  | some a =>
    if a.localities.length = 0 then none
    else some ⟨a.localities.map (fun l => l.map (fun e => ⟨joinHostPort e.host e.port, e.weight⟩))⟩

inductive DiscType | eds | logicalDns | static
  deriving DecidableEq, Repr, Inhabited

inductive LbPolicy | roundRobin | ringHash
  deriving DecidableEq, Repr, Inhabited

structure POutlier where
  threshold : Option Nat          -- FailurePercentageThreshold (wrapper, nil-able)
  volume : Option Nat             -- FailurePercentageRequestVolume
  deriving DecidableEq, Repr, Inhabited

structure PCluster where
  name : String
  typ : Nat                        -- the enum number on the wire
  lb : Nat
  serviceName : String             -- EdsClusterConfig.ServiceName ("" when absent)
  inline : Option PCla
  outlier : Option POutlier
  deriving DecidableEq, Repr, Inhabited

structure DCluster where
  discType : DiscType
  lb : LbPolicy
  endpointName : String
  inline : Option Endpoints
  outlier : Option (Nat × Nat)     -- (threshold, volume)
  deriving DecidableEq, Repr, Inhabited

/-- `convertDiscoveryType` (STATIC=0, STRICT_DNS=1, LOGICAL_DNS=2, EDS=3, ORIGINAL_DST=4) -/
def convType (n : Nat) : DiscType :=
  if n = 3 then .eds else if n = 2 then .logicalDns else if n = 0 then .static else .eds

/-- `convertLbPolicy` (ROUND_ROBIN=0, RING_HASH=2) -/
def convLb (n : Nat) : LbPolicy := if n = 2 then .ringHash else .roundRobin

/-- `unmarshalCluster` after `proto.Unmarshal` -/
def decodeCluster (c : PCluster) : String × DCluster :=
  (c.name,
   { discType := convType c.typ, lb := convLb c.lb,
     endpointName := if c.serviceName ≠ "" then c.serviceName else c.name,
     inline := decodeCla c.inline,
     outlier := c.outlier.map (fun o => (o.threshold.getD 0, o.volume.getD 0)) })

def DCluster.toResolve (d : DCluster) : Cluster := ⟨d.endpointName, d.inline⟩

end XdsVerif.DecodeCE
