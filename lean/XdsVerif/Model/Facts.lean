import XdsVerif.Model.Pick
/-! Fact record types consumed by `Generated/Facts.lean` (one per model file), gathered here. -/
