import XdsVerif.Model.Reg
import XdsVerif.Model.Flow
import XdsVerif.Model.Conc
import XdsVerif.Model.DecodeCE
import XdsVerif.Model.Decode
import XdsVerif.Model.Handlers
import XdsVerif.Model.Seq
import XdsVerif.Model.Resolve
import XdsVerif.Model.Bootstrap
import XdsVerif.Model.Pick
import XdsVerif.Model.Fqdn
/-! Fact record types consumed by `Generated/Facts.lean` (one per model file), gathered here. -/
