import XdsVerif.Model.Fqdn
/-!
# Model of `core/manager/bootstrap.go` (`nodeId`, `parseMetaEnvs`, `newBootstrapConfig`) and of
the first-wins singleton (`xdssuite.SetXDSResourceManager`, `xds.Init`)

`protojson.Unmarshal` is external: its result is the parameter `parsed` (`none` = it returned an
error; `some obj` = the JSON object, string values kept, every other value opaque).
-/
namespace XdsVerif.Bootstrap
open XdsVerif.Fqdn (Str splitOn hasInfix)

inductive JV
  | str (s : Str)
  | other (text : String)          -- number / bool / null / list / object, kept as opaque text
  deriving DecidableEq, Repr, Inhabited

/-- `GetStringValue()` -/
def JV.getString : JV → Str
  | .str s => s
  | .other _ => []

abbrev JObj := List (String × JV)

def lookup (o : JObj) (k : String) : Option JV :=
  match o with
  | [] => none
  | (k', v) :: rest => if k' = k then some v else lookup rest k

/-- map assignment `o[k] = v` (the key exists) -/
def set (o : JObj) (k : String) (v : JV) : JObj :=
  o.map (fun kv => if kv.1 = k then (kv.1, v) else kv)

/-- how `parseMetaEnvs` tests whether the pod IP is already listed -/
inductive IpsTest | substring | element | other
  deriving DecidableEq, Repr, Inhabited

structure BootFacts where
  ipsTest : IpsTest
  nodeFormat : String           -- the Sprintf format of nodeId
  defaultDomain : String
  ipsKey : String
  nsKey : String
  versionKey : String
  /-- the three required variables are checked (== "") before anything is built, in this order -/
  required : List String
  deriving DecidableEq, Repr, Inhabited

def expectedFacts : BootFacts :=
  { ipsTest := .element, nodeFormat := "sidecar~%s~%s.%s~%s.svc.%s", defaultDomain := "cluster.local",
    ipsKey := "INSTANCE_IPS", nsKey := "NAMESPACE", versionKey := "ISTIO_VERSION",
    required := ["POD_NAMESPACE", "POD_NAME", "INSTANCE_IP"] }

def nodeId (ip name ns dom : String) : String :=
  "sidecar~" ++ ip ++ "~" ++ name ++ "." ++ ns ++ "~" ++ ns ++ ".svc." ++ dom

def listed (t : IpsTest) (exist ip : Str) : Bool :=
  match t with
  | .substring => hasInfix ip exist
  | .element => (splitOn ',' exist).contains ip
  | .other => false

/-- `parseMetaEnvs` -/
def parseMeta (t : IpsTest) (envs : String) (parsed : Option JObj) (istioVersion : String) (podIP : Str) : JObj :=
  let dflt : JObj := [("ISTIO_VERSION", .str istioVersion.toList)]
  if envs = "" then dflt
  else match parsed with
    | none => dflt
    | some o =>
      match lookup o "INSTANCE_IPS" with
      | none => o
      | some v =>
        let exist := v.getString
        let new := if exist = [] then podIP
                   else if listed t exist podIP then exist
                   else exist ++ [','] ++ podIP
        set o "INSTANCE_IPS" (.str new)

structure Env where
  podNamespace : String
  podName : String
  instanceIP : String
  istioVersion : String
  domain : String
  metas : String
  deriving Repr, Inhabited

structure Config where
  configNamespace : String
  nodeDomain : String
  nodeId : String
  metadata : JObj
  deriving Repr, Inhabited

inductive BootErr | noNamespace | noName | noIP
  deriving DecidableEq, Repr, Inhabited

/-- `newBootstrapConfig` -/
def newConfig (t : IpsTest) (e : Env) (parsed : Option JObj) : Except BootErr Config :=
  if e.podNamespace = "" then .error .noNamespace
  else if e.podName = "" then .error .noName
  else if e.instanceIP = "" then .error .noIP
  else
    let dom := if e.domain = "" then "cluster.local" else e.domain
    let md := parseMeta t e.metas parsed e.istioVersion e.instanceIP.toList
    let ns := match lookup md "NAMESPACE" with
      | some v => if v.getString ≠ [] then String.ofList v.getString else e.podNamespace
      | none => e.podNamespace
    .ok { configNamespace := ns, nodeDomain := dom,
          nodeId := nodeId e.instanceIP e.podName e.podNamespace dom, metadata := md }

/-- `SetXDSResourceManager`: first wins -/
def setManager {M : Type} (cur : Option M) (m : M) : Option M :=
  match cur with
  | none => some m
  | some c => some c

/-- `xds.Init`: nothing happens when a manager is installed; a construction error installs nothing -/
def init {M : Type} (cur : Option M) (build : Except BootErr M) : Option M × Bool :=
  match cur with
  | some c => (some c, true)
  | none => match build with
    | .error _ => (none, false)
    | .ok m => (setManager none m, true)

/-- a history of `xds.Init` calls: `builds` is what constructing a manager would yield at each call (it depends on the
environment of that moment); the result is what is installed in the end and what each call reported (`true` = nil error) -/
def initRun {M : Type} : Option M → List (Except BootErr M) → Option M × List Bool
  | cur, [] => (cur, [])
  | cur, b :: bs =>
    let (cur', ok) := init cur b
    let (fin, oks) := initRun cur' bs
    (fin, ok :: oks)

/-- overlapping calls of `SetXDSResourceManager`, in the order in which the callers obtain the holder's write lock
(the body runs under that lock - fact `initShape`): what is installed after each of them -/
def setRun {M : Type} (cur : Option M) : List M → List (Option M)
  | [] => []
  | m :: ms => setManager cur m :: setRun (setManager cur m) ms

end XdsVerif.Bootstrap
