/-!
# Model of host-name expansion and listener-name binding
`BootstrapConfig.tryExpandFQDN` (bootstrap.go), `xdsClient.resolveAddr`, `xdsClient.getListenerName`
(client.go). Strings are `List Char`; `splitOn` is Go's `strings.Split` for a one-character
separator (n separators ⇒ n+1 parts), `hasInfix` is `strings.Contains`.
Domain: ASCII host names (Go's `strings.ToLower` is Unicode-aware; `lower` is ASCII).
-/
namespace XdsVerif.Fqdn

abbrev Str := List Char

/-- Go `strings.Split(s, sep)` for a single character separator -/
def splitOn (sep : Char) : Str → List Str
  | [] => [[]]
  | c :: cs =>
    if c = sep then [] :: splitOn sep cs
    else match splitOn sep cs with
      | [] => [[c]]                 -- unreachable (splitOn never returns [])
      | p :: ps => (c :: p) :: ps

/-- `strings.Contains(s, sub)` -/
def hasInfix (sub : Str) : Str → Bool
  | [] => sub.isEmpty
  | c :: cs => sub.isPrefixOf (c :: cs) || hasInfix sub cs

def svc : Str := ".svc.".toList

structure FqdnFacts where
  /-- the marker whose presence means "already expanded" -/
  marker : String
  /-- the label compared with `parts[2]` in the three-label case -/
  svcLabel : String
  /-- port used when the lookup name carries none -/
  defaultPort : String
  /-- separator between cluster IP and port in listener names -/
  sep : String
  /-- separator between host and port in lookup names -/
  portSep : String
  deriving DecidableEq, Repr, Inhabited

/-- `tryExpandFQDN` -/
def expand (ns dom : Str) (h : Str) : Str :=
  if hasInfix svc h then h
  else
    let parts := splitOn '.' h
    match parts.length with
    | 1 => h ++ ['.'] ++ ns ++ svc ++ dom
    | 2 => h ++ svc ++ dom
    | 3 => if parts[2]? = some "svc".toList then h ++ ['.'] ++ dom else h
    | _ => h ++ ['.'] ++ ns ++ svc ++ dom

def lowerC (c : Char) : Char := if c.isUpper then Char.ofNat (c.toNat + 32) else c
def lower (s : Str) : Str := s.map lowerC

/-- the NDS lookup table: host → cluster IPs (a Go map: keys are unique; first match) -/
abbrev Table := List (Str × List Str)

def lookup (t : Table) (k : Str) : Option (List Str) :=
  match t with
  | [] => none
  | (k', v) :: rest => if k' = k then some v else lookup rest k

/-- first address of a table entry, if the host is present with at least one address -/
def firstIp (t : Table) (k : Str) : Option Str :=
  match lookup t k with
  | some (ip :: _) => some ip
  | _ => none

/-- `resolveAddr` on an already lower-cased host; `[]` is Go's `""` -/
def resolveL (ns dom : Str) (t : Table) (h : Str) : Str :=
  let fqdn := expand ns dom h
  match firstIp t fqdn with
  | some ip => ip
  | none =>
    if fqdn ≠ h then
      match firstIp t h with
      | some ip => ip
      | none => []
    else []

/-- `resolveAddr` -/
def resolve (ns dom : Str) (t : Table) (host : Str) : Str := resolveL ns dom t (lower host)

/-- `getListenerName`: `none` is the error return -/
def listenerName (ns dom : Str) (t : Table) (rName : Str) : Option Str :=
  match splitOn ':' rName with
  | [addr] =>
    let cip := resolve ns dom t addr
    if cip.length > 0 then some (cip ++ "_".toList ++ "80".toList) else none
  | [addr, port] =>
    let cip := resolve ns dom t addr
    if cip.length > 0 then some (cip ++ "_".toList ++ port) else none
  | _ => none

/-- what the source must say for the model above to be the model of it -/
def expectedFacts : FqdnFacts :=
  { marker := ".svc.", svcLabel := "svc", defaultPort := "80", sep := "_", portSep := ":" }

end XdsVerif.Fqdn
