import XdsVerif.Model.Fqdn
/-!
# The client + manager as an atomic-operation state machine (`core/manager/client.go`, `manager.go`)

One `Op` is one lock-protected section (or one lock-free action) of the code; a history is a list
of operations; `step` returns `none` when the operation is not enabled in the state (the trace
is then not a trace of the model). Maps are functions (`RType → …`, `Name → Option …`): all
theorems are pointwise, and the driver evaluates them on the names a case mentions.

Resource content is a *stamp* (`Val = String`); field fidelity of decoding is C11/C12.
-/
namespace XdsVerif.Seq
open XdsVerif.Fqdn (Str)

inductive RType | lds | rds | cds | eds | nds
  deriving DecidableEq, Repr, Inhabited

def RType.all : List RType := [.lds, .rds, .cds, .eds, .nds]

abbrev Name := String
abbrev Val := String

/-- facts read from the source -/
structure SeqFacts where
  /-- `RequireFullADSResponse` -/
  fullTypes : List RType
  /-- capacity of `reqCh`, `streamCh` -/
  reqCap : Nat
  streamCap : Nat
  /-- `defaultCacheExpireTime` in seconds -/
  expireSec : Nat
  reserved : String
  /-- `updateAndACK`: version assigned only when `err == nil`; nonce assigned unconditionally; error detail iff message non-empty -/
  ackShape : Bool
  /-- `reconnect`: nonce reset and queue drain inside one `c.mu` region, before the `streamCh` send -/
  reconnectShape : Bool
  /-- the handlers return before `UpdateResource` when decoding failed -/
  earlyReturn : Bool
  /-- interest filter present in handleRDS/CDS/EDS and (presence-checked) in handleLDS -/
  filterShape : Bool
  /-- `Watch` mutates the set before building the request, under `c.mu` -/
  watchShape : Bool
  /-- `UpdateResource`: handlers, then write+notify, then prune (full types), then meta; all under `m.mu` -/
  updateOrder : List String
  /-- cleaner body: reserved guard, expiry comparison `>`, deletes meta and cache, calls Watch(remove) -/
  cleanerShape : Bool
  deriving DecidableEq, Repr, Inhabited

def expectedFacts : SeqFacts :=
  { fullTypes := [.lds, .cds], reqCap := 1024, streamCap := 1, expireSec := 30, reserved := "virtualInbound",
    ackShape := true, reconnectShape := true, earlyReturn := true, filterShape := true, watchShape := true,
    updateOrder := ["lock", "handlers", "write+notify", "prune", "meta"], cleanerShape := true }

structure Cfg where
  /-- `sendRequest` gives up when the client has been stopped (fact read from the source) -/
  sendAborts : Bool
  /-- `updateMeta` initialises the last-access time of a new entry with the update time (fact read from the source) -/
  metaInitNow : Bool
  ndsRequired : Bool
  ns : Str
  dom : Str
  deriving Repr, Inhabited

def reserved : Name := "virtualInbound"
def isFull (rt : RType) : Bool := rt = .lds || rt = .cds
def expire : Nat := 30
def reqCap : Nat := 1024

structure Req where
  rt : RType
  names : List Name
  version : String
  nonce : String
  err : Bool
  deriving DecidableEq, Repr, Inhabited

/-- one resource slot of a response: decodable (with its own name and content) or not -/
inductive Slot
  | good (name : Name) (val : Val)
  | bad
  deriving DecidableEq, Repr, Inhabited

structure Resp where
  rt : RType
  version : String
  nonce : String
  slots : List Slot
  /-- for the name table: the decoded table of the first slot (`none` when that slot is undecodable) -/
  table : Option (List (Name × List String)) := none
  deriving Repr, Inhabited

def Slot.isGood : Slot → Bool
  | .good _ _ => true
  | .bad => false

/-- does the whole response decode? (`UnmarshalNDS` looks at the first resource only and rejects an empty response) -/
def Resp.decodes (r : Resp) : Bool :=
  match r.rt with
  | .nds => r.slots.length > 0 && r.table.isSome
  | _ => r.slots.all Slot.isGood

/-- decoded resources as a map: a later slot with the same name replaces an earlier one -/
def resOf : List Slot → Name → Option Val
  | [], _ => none
  | .bad :: rest, n => resOf rest n
  | .good k v :: rest, n =>
    match resOf rest n with
    | some w => some w
    | none => if k = n then some v else none

structure St where
  -- client
  watched : RType → Option (List Name)
  version : RType → String
  nonce : RType → String
  table : List (Name × List String)
  queue : List Req
  recvStream : Nat
  nextSid : Nat
  handoff : Option Nat               -- receiver blocked on `streamCh <- as`
  pending : Option Nat               -- stream sitting in streamCh
  senderStream : Option Nat
  wire : List (Nat × Req)            -- (stream id, request) actually sent
  issued : List (Nat × String)       -- nonces issued by the control plane, per stream
  closed : Bool
  -- manager
  cache : RType → Name → Option Val
  /-- meta: `none` no entry; `some none` entry without last-access time; `some (some t)` -/
  acc : RType → Name → Option (Option Nat)

def init : St :=
  { watched := fun _ => none, version := fun _ => "", nonce := fun _ => "", table := [], queue := [],
    recvStream := 1, nextSid := 2, handoff := none, pending := none, senderStream := some 1,
    wire := [], issued := [], closed := false, cache := fun _ _ => none, acc := fun _ _ => none }

def mkReq (s : St) (rt : RType) (err : Bool) : Req :=
  { rt := rt, names := (s.watched rt).getD [], version := s.version rt, nonce := s.nonce rt, err := err }

def toTable (t : List (Name × List String)) : Fqdn.Table := t.map (fun kv => (kv.1.toList, kv.2.map String.toList))

/-- `getListenerName` against the current name table -/
def listenerNameOf (cfg : Cfg) (t : List (Name × List String)) (n : Name) : Option Name :=
  (Fqdn.listenerName cfg.ns cfg.dom (toTable t) n.toList).map String.ofList

/-- the update map a handler passes to `UpdateResource`: the decoded response filtered by the interest set
(listeners through the name binding) -/
def filtered (cfg : Cfg) (s : St) (r : Resp) (n : Name) : Option Val :=
  match s.watched r.rt with
  | none => none
  | some ws =>
    if ws.contains n then
      if r.rt = .lds ∧ cfg.ndsRequired ∧ n ≠ reserved then
        match listenerNameOf cfg s.table n with
        | some ln => resOf r.slots ln
        | none => none
      else resOf r.slots n
    else none

/-- `UpdateResource` on the manager part -/
def applyUpdate (s : St) (rt : RType) (up : Name → Option Val) (init : Option Nat) : St :=
  let cache' : Name → Option Val := fun n =>
    match up n with
    | some v => some v
    | none => if isFull rt then none else s.cache rt n
  { s with
    cache := fun t => if t = rt then cache' else s.cache t,
    acc := fun t n => if t = rt then
        (match cache' n with
         | some _ => (match s.acc rt n with | none => some init | some a => some a)
         | none => s.acc rt n)
      else s.acc t n }

/-- `Watch(rt, n, remove)` -/
def watch (s : St) (rt : RType) (n : Name) (remove : Bool) : St :=
  let cur := (s.watched rt).getD []
  let cur' := if remove then cur.filter (· ≠ n) else if cur.contains n then cur else cur ++ [n]
  let s1 := { s with watched := fun t => if t = rt then some cur' else s.watched t }
  { s1 with queue := s1.queue ++ [mkReq s1 rt false] }

/-- `updateAndACK`: version only on success, nonce always, one request enqueued (NACK = error detail set) -/
def ack (s : St) (r : Resp) (ok : Bool) (sid : Nat) : St :=
  let s1 := { s with version := fun t => if t = r.rt ∧ ok then r.version else s.version t,
                     nonce := fun t => if t = r.rt then r.nonce else s.nonce t,
                     issued := s.issued ++ [(sid, r.nonce)] }
  { s1 with queue := s1.queue ++ [mkReq s1 r.rt (!ok)] }

inductive Op
  /-- a response delivered on the receiver's stream and processed to completion at time `now` -/
  | push (r : Resp) (now : Nat)
  /-- a response whose type URL is unknown -/
  | pushUnknown
  /-- `Watch(rt, n, false)`: start-up subscription, or a lookup that missed and created the notifier -/
  | subscribe (rt : RType) (n : Name)
  /-- `getFromCache` of any lookup at time `now` (seconds) -/
  | touch (rt : RType) (n : Name) (now : Nat)
  /-- one iteration of the cleaner whose condition fired -/
  | evict (rt : RType) (n : Name) (now : Nat)
  /-- `Recv` failed with an authentication error: `close()` -/
  | authFail
  /-- `Recv` failed, a new stream was created: nonce reset + queue drain under `c.mu` -/
  | reconnectDrain
  /-- `streamCh <- as` -/
  | publish
  /-- the sender takes the new stream and runs `reqWhenReconnect`: `order` is the map-iteration order of
      the watched types, the `Send` of request number `upto` fails (`upto ≥ length` = none fails) -/
  | senderAdopt (order : List RType) (upto : Nat)
  /-- the sender takes one request from the queue; `fails` = `Send` returned an error -/
  | senderSend (fails : Bool)
  deriving Repr, Inhabited

def isPerm (a b : List RType) : Bool := a.all (b.contains ·) && b.all (a.contains ·) && a.length == b.length

def watchedTypes (s : St) : List RType := RType.all.filter (fun t => (s.watched t).isSome)

def step (cfg : Cfg) (s : St) : Op → Option St
  | .pushUnknown => if s.handoff.isSome || s.closed then none else some s
  | .push r now =>
    if s.handoff.isSome || s.closed then none           -- receiver is blocked in reconnect / stopped
    else match s.watched r.rt with
      | none => some s                                  -- never-watched type: neither acknowledged nor applied
      | some _ =>
        -- E2: the control plane answers; it does not speak first
        if r.nonce = "" then none
        else if ¬ (s.wire.any (fun kq => kq.1 = s.recvStream ∧ kq.2.rt = r.rt)) then none
        else
          let ok := r.decodes
          let s2 := ack s r ok s.recvStream
          if !ok then some s2
          else if r.rt = .nds then some { s2 with table := r.table.getD [] }
          else some (applyUpdate s2 r.rt (filtered cfg s2 r) (if cfg.metaInitNow then some now else none))
  | .subscribe rt n =>
    -- after the client has stopped nobody drains the request channel: the send blocks once it is full
    if s.closed ∧ ¬ (s.queue.length < reqCap) then
      (if cfg.sendAborts then some { (watch s rt n false) with queue := s.queue } else none)
    else some (watch s rt n false)
  | .touch rt n now =>
    some { s with acc := fun t m => if t = rt ∧ m = n then
                      (match s.acc rt n with | none => none | some _ => some (some now))
                    else s.acc t m }
  | .evict rt n now =>
    if s.closed ∧ ¬ (s.queue.length < reqCap) ∧ ¬ cfg.sendAborts then none else
    match s.acc rt n with
    | some (some t) =>
      if (rt = .lds ∧ n = reserved) ∨ ¬ (now - t > expire) then none
      else
        let s1 := { s with cache := fun t' m => if t' = rt ∧ m = n then none else s.cache t' m,
                           acc := fun t' m => if t' = rt ∧ m = n then none else s.acc t' m }
        if s.closed ∧ ¬ (s.queue.length < reqCap) then some { (watch s1 rt n true) with queue := s.queue }
        else some (watch s1 rt n true)
    | _ => none
  | .authFail => if s.handoff.isSome || s.closed then none else some { s with closed := true }
  | .reconnectDrain =>
    if s.handoff.isSome || s.closed then none
    else some { s with nonce := fun _ => "", queue := [], recvStream := s.nextSid,
                       nextSid := s.nextSid + 1, handoff := some s.nextSid }
  | .publish =>
    match s.handoff, s.pending with
    | some k, none => some { s with handoff := none, pending := some k }
    | _, _ => none
  | .senderAdopt order upto =>
    match s.pending with
    | none => none
    | some k =>
      if s.closed then some { s with pending := none, senderStream := none } else   -- the stream was closed with the client
      if !isPerm order (watchedTypes s) then none else
      let reqs := order.map (fun rt => (k, mkReq s rt false))
      if upto < reqs.length then
        some { s with pending := none, senderStream := none, wire := s.wire ++ reqs.take upto }
      else
        some { s with pending := none, senderStream := some k, wire := s.wire ++ reqs }
  | .senderSend fails =>
    match s.queue with
    | [] => none
    | q :: rest =>
      if s.closed then some { s with queue := rest }    -- the stream is closed: nothing reaches the wire any more
      else match s.senderStream with
      | none => some { s with queue := rest }
      | some k =>
        if fails then some { s with queue := rest, senderStream := none }
        else some { s with queue := rest, wire := s.wire ++ [(k, q)] }

def run (cfg : Cfg) : St → List Op → Option St
  | s, [] => some s
  | s, o :: os => match step cfg s o with
      | some s' => run cfg s' os
      | none => none

end XdsVerif.Seq
