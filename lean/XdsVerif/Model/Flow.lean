/-!
# The request path of the client as an interleaving machine (`core/manager/client.go`)

`Seq` treats the request channel as an unbounded list and every operation as atomic. This layer models what `Seq`
abstracts away: the **bounded** channel `reqCh` (capacity `cap`), the **client lock** `c.mu` that every producer of a
request holds while it waits for room in the channel, the **sender** goroutine (its `select`, the in-flight `Send`, the
adoption of a new stream through `reqWhenReconnect`, which takes `c.mu`), and the **receiver** goroutine (acknowledging
under `c.mu`, and `reconnect`: new stream, nonce reset + channel drain under `c.mu`, hand-off through `streamCh` of
capacity one). Requests are opaque (`α`): this layer is about where a request goes, not what it says.

Threads and their steps (one step = one lock-protected section or one channel operation):

* producer `i` (a lookup that missed, or the cleaner evicting: `Watch`):
  `pStart i r` (external: `Watch` is called) · `pLock i` (`c.mu.Lock()`) · `pEnq i` (`sendRequest`: room in the channel,
  or — fact `sendAborts` — the client has been stopped; then `Unlock`)
* sender: `sTakeReq` (`case req := <-c.reqCh`; without a stream the request is dropped) · `sSendDone` (the in-flight
  `Send` returns; it fails on a dead stream) · `sTakeStream` (`case s := <-c.streamCh`) · `sAdopt` (`reqWhenReconnect`:
  `c.mu.Lock()`, one request per watched type on the new stream, `Unlock`) · `sExit` (`case <-c.closeCh`)
* receiver: `rResp r` (external: a response arrives) · `rAckLock` · `rAckEnq` (`updateAndACK`) · `rFail` (external:
  `Recv` fails; the stream is closed and a new one created) · `rDrain` (`c.mu.Lock()`, reset, `clearRequestCh`, `Unlock`)
  · `rPublish` (`c.streamCh <- as`) · `rAuthFail` (external: `close()`)
* transport: `stall` / `resume` (external: flow control; a stalled `Send` does not return)

Not modelled here: `m.mu` (a lookup holds it around `Watch`; it only serialises producers and is never taken by the
sender or the receiver while they hold `c.mu` — lock-order theorem in C07), a stall *inside* `reqWhenReconnect`.
-/
namespace XdsVerif.Flow

inductive Holder
  | prod (i : Nat)
  | recv
  deriving DecidableEq, Repr, Inhabited

inductive PPC (α : Type)
  | idle
  | want (r : α)
  | locked (r : α)
  | done
  deriving DecidableEq, Repr, Inhabited

inductive SPC (α : Type)
  | sel
  | sending (r : α) (k : Nat)
  | adoptWait (k : Nat)
  | exited
  deriving DecidableEq, Repr, Inhabited

inductive RPC (α : Type)
  | recv (k : Nat)
  | ackWant (r : α) (k : Nat)
  | ackLocked (r : α) (k : Nat)
  | reconnWait (k : Nat)
  | publish (k : Nat)
  | stopped
  deriving DecidableEq, Repr, Inhabited

/-- facts read from the source -/
structure FlowFacts where
  /-- `sendRequest` is a blocking send on `reqCh` (with the `closeCh` escape), no `default`, no eviction of queued requests -/
  sendBlocks : Bool
  /-- the sender loop: `closeCh` → return; `streamCh` → adopt; `reqCh` → `Send` on the current stream or drop; a failed `Send` forgets the stream -/
  senderShape : Bool
  /-- `reqWhenReconnect` holds `c.mu` for the whole re-subscription batch -/
  adoptLocks : Bool
  /-- `Watch` and `updateAndACK` call `sendRequest` while holding `c.mu` -/
  producersHoldLock : Bool
  /-- `reconnect`: reset + drain under `c.mu`, then the hand-off, outside the lock -/
  drainThenPublish : Bool
  deriving DecidableEq, Repr, Inhabited

def expectedFacts : FlowFacts := ⟨true, true, true, true, true⟩

structure S (α : Type) where
  queue : List α
  cmu : Option Holder
  pc : Nat → PPC α
  spc : SPC α
  rpc : RPC α
  senderStream : Option Nat
  streamCh : Option Nat
  nextSid : Nat
  dead : Nat → Bool
  stalled : Bool
  closed : Bool
  -- history (ghost): what went into the channel, what left it, and where it went
  enq : List α
  gone : List α
  sent : List (Nat × α)
  /-- requests the sender took but could not send: `(r, none)` it had no stream; `(r, some k)` the `Send` on stream `k` failed -/
  dropped : List (α × Option Nat)
  drained : List α
  resub : List (Nat × List α)
  -- epochs (ghost): one epoch per stream generation; a request is tagged with the epoch in which its producer took the
  -- client lock (that is where it read the nonce it echoes)
  epoch : Nat
  lockEp : Nat → Nat          -- producer `i`: the epoch at its `pLock`
  rLockEp : Nat               -- the acknowledging receiver: the epoch at its `rAckLock`
  queueEp : List Nat          -- tags of the queued requests (parallel to `queue`)
  inflightEp : Nat            -- tag of the request in `Send`
  sentEp : List (Nat × Nat)   -- (stream, tag) of every request on the wire (parallel to `sent`)
  streamEp : Nat → Nat        -- the epoch of stream `k` (set when the reconnect that created it resets the nonces)
  /-- the requests in the order in which their producers took the client lock (that is the order of the atomic
  operations of `Seq`: the interest set is changed and the request is built inside that section) -/
  lockSeq : List α

def init {α : Type} : S α :=
  { queue := [], cmu := none, pc := fun _ => .idle, spc := .sel, rpc := .recv 1, senderStream := some 1,
    streamCh := none, nextSid := 2, dead := fun _ => false, stalled := false, closed := false,
    enq := [], gone := [], sent := [], dropped := [], drained := [], resub := [],
    epoch := 0, lockEp := fun _ => 0, rLockEp := 0, queueEp := [], inflightEp := 0, sentEp := [], streamEp := fun _ => 0,
    lockSeq := [] }

inductive Lbl (α : Type)
  | pStart (i : Nat) (r : α)
  | pLock (i : Nat)
  | pEnq (i : Nat)
  | sTakeReq
  | sSendDone
  | sTakeStream
  | sAdopt (batch : List α)
  | sExit
  | rResp (r : α)
  | rAckLock
  | rAckEnq
  | rFail
  | rDrain
  | rPublish
  | rAuthFail
  | stall
  | resume
  deriving Repr, Inhabited

/-- steps of the program itself (not stimuli of its environment) -/
def Lbl.internal {α : Type} : Lbl α → Bool
  | .pLock _ | .pEnq _ | .sTakeReq | .sSendDone | .sTakeStream | .sAdopt _ | .sExit
  | .rAckLock | .rAckEnq | .rDrain | .rPublish => true
  | _ => false

def setPc {α : Type} (s : S α) (i : Nat) (p : PPC α) : S α := { s with pc := fun j => if j = i then p else s.pc j }

/-- `sendRequest` can complete: room in the channel, or the client has been stopped -/
def canEnq {α : Type} (cap : Nat) (s : S α) : Bool := s.queue.length < cap || s.closed

/-- the effect of a completed `sendRequest` (a stopped client with a full channel gives up without enqueuing) -/
def doEnq {α : Type} (cap : Nat) (s : S α) (r : α) (tag : Nat := 0) : S α :=
  if s.queue.length < cap then { s with queue := s.queue ++ [r], enq := s.enq ++ [r], queueEp := s.queueEp ++ [tag] } else s

def step {α : Type} (cap : Nat) (s : S α) : Lbl α → Option (S α)
  | .pStart i r =>
    match s.pc i with
    | .idle => some (setPc s i (.want r))
    | _ => none
  | .pLock i =>
    match s.pc i, s.cmu with
    | .want r, none => some { (setPc s i (.locked r)) with cmu := some (.prod i), lockEp := fun j => if j = i then s.epoch else s.lockEp j,
                                                            lockSeq := s.lockSeq ++ [r] }
    | _, _ => none
  | .pEnq i =>
    match s.pc i with
    | .locked r => if canEnq cap s then some { (setPc (doEnq cap s r (s.lockEp i)) i .done) with cmu := none } else none
    | _ => none
  | .sTakeReq =>
    match s.spc, s.queue with
    | .sel, r :: rest =>
      match s.senderStream with
      | some k => some { s with queue := rest, gone := s.gone ++ [r], spc := .sending r k, queueEp := s.queueEp.tail, inflightEp := s.queueEp.headD 0 }
      | none => some { s with queue := rest, gone := s.gone ++ [r], dropped := s.dropped ++ [(r, none)], queueEp := s.queueEp.tail }
    | _, _ => none
  | .sSendDone =>
    match s.spc with
    | .sending r k =>
      if s.stalled then none
      else if s.dead k then some { s with spc := .sel, senderStream := none, dropped := s.dropped ++ [(r, some k)] }
      else some { s with spc := .sel, sent := s.sent ++ [(k, r)], sentEp := s.sentEp ++ [(k, s.inflightEp)] }
    | _ => none
  | .sTakeStream =>
    match s.spc, s.streamCh with
    | .sel, some k => some { s with streamCh := none, spc := .adoptWait k }
    | _, _ => none
  | .sAdopt batch =>
    match s.spc, s.cmu with
    | .adoptWait k, none =>
      if s.dead k then some { s with spc := .sel, senderStream := none }
      else some { s with spc := .sel, senderStream := some k, resub := s.resub ++ [(k, batch)] }
    | _, _ => none
  | .sExit =>
    match s.spc with
    | .sel => if s.closed then some { s with spc := .exited } else none
    | _ => none
  | .rResp r =>
    match s.rpc with
    | .recv k => some { s with rpc := .ackWant r k }
    | _ => none
  | .rAckLock =>
    match s.rpc, s.cmu with
    | .ackWant r k, none => some { s with rpc := .ackLocked r k, cmu := some .recv, rLockEp := s.epoch, lockSeq := s.lockSeq ++ [r] }
    | _, _ => none
  | .rAckEnq =>
    match s.rpc with
    | .ackLocked r k => if canEnq cap s then some { (doEnq cap s r s.rLockEp) with rpc := .recv k, cmu := none } else none
    | _ => none
  | .rFail =>
    match s.rpc with
    | .recv k => some { s with rpc := .reconnWait s.nextSid, nextSid := s.nextSid + 1,
                               dead := fun j => if j = k then true else s.dead j }
    | _ => none
  | .rDrain =>
    match s.rpc, s.cmu with
    | .reconnWait k, none => some { s with rpc := .publish k, queue := [], gone := s.gone ++ s.queue, drained := s.drained ++ s.queue,
                                           queueEp := [], epoch := s.epoch + 1, streamEp := fun j => if j = k then s.epoch + 1 else s.streamEp j }
    | _, _ => none
  | .rPublish =>
    match s.rpc, s.streamCh with
    | .publish k, none => some { s with rpc := .recv k, streamCh := some k }
    | _, _ => none
  | .rAuthFail =>
    match s.rpc with
    | .recv _ => some { s with rpc := .stopped, closed := true }
    | _ => none
  | .stall => some { s with stalled := true }
  | .resume => some { s with stalled := false }

def run {α : Type} (cap : Nat) : S α → List (Lbl α) → Option (S α)
  | s, [] => some s
  | s, l :: ls => match step cap s l with
      | some s' => run cap s' ls
      | none => none

/-- no step of the program is enabled (whatever the environment does next, nothing moves by itself) -/
def Stuck {α : Type} (cap : Nat) (s : S α) : Prop := ∀ l : Lbl α, l.internal = true → step cap s l = none

/-- nothing is under way: no producer inside `Watch`, the sender at its `select` (or gone) with nothing to take,
the receiver in `Recv` (or stopped) -/
def Quiescent {α : Type} (s : S α) : Prop :=
  (∀ i, s.pc i = .idle ∨ s.pc i = .done) ∧ s.cmu = none ∧
  ((s.spc = .sel ∧ s.queue = [] ∧ s.streamCh = none ∧ s.closed = false) ∨ s.spc = .exited) ∧
  ((∃ k, s.rpc = .recv k) ∨ s.rpc = .stopped)

/-- **S12**: the sender has taken a new stream and waits for `c.mu` in `reqWhenReconnect`, while `c.mu` is held by a
producer (or by the acknowledging receiver) that waits for room in the full channel — which only the sender makes -/
def S12 {α : Type} (cap : Nat) (s : S α) : Prop :=
  (∃ k, s.spc = .adoptWait k) ∧ s.queue.length = cap ∧ s.closed = false ∧
  ((∃ i r, s.cmu = some (.prod i) ∧ s.pc i = .locked r) ∨ (∃ r k, s.cmu = some .recv ∧ s.rpc = .ackLocked r k))

end XdsVerif.Flow
